"""Prints the prompt given to a fresh sub-agent that seeds a property-breaking change.
Only the property text and the worktree path go in; nothing from /verif."""
import json, sys
pid = sys.argv[1]
wt = sys.argv[2] if len(sys.argv) > 2 else '/tmp/seed/' + pid
for l in open('/verif/properties.jsonl'):
    p = json.loads(l)
    if p['id'] == pid:
        break
print(f"""You are helping to evaluate a verification effort for the Python package zopefoundation/BTrees (ZODB's persistent BTree/Bucket/Set/TreeSet containers: a pure-Python implementation in src/BTrees/_base.py plus a C implementation built from templates src/BTrees/*Template.c, instantiated per key/value family such as IIBTree, OOBTree, LFBTree ...).

You have your own scratch git worktree of the repository at {wt} (already built in place). Work ONLY inside {wt}. Do NOT read, list or touch /repo or /verif or any other directory under /tmp/seed - your work must be independent of them.

Here is a semantic property the package is supposed to satisfy:

  Title: {p['title']}
  Statement: {p['statement']}
  Quantified over: {p['quantifier']['text']}
  Code it is anchored in: {', '.join(p['anchors']['files'])}

YOUR TASK: produce TWO different, realistic source changes to the package (call them A and B; different root causes, preferably one in the C templates/headers and one in the pure-Python code - or both C if the property is about the C extension only) each of which BREAKS this property, while
  (1) the package still compiles, and
  (2) the package's existing test suite still passes completely (1468 passed), and
  (3) the breakage needs something SPECIFIC to manifest - a particular multi-step sequence of operations, a particular tree shape (e.g. after deletions, a multi-level tree, small max_leaf_size/max_internal_size), an unusual input or boundary value, a fault or eviction at a particular point, a particular interleaving, or two cooperating code sites that each look fine alone. NOT something ordinary use would expose at once (a change that breaks every insert is useless).
Think of the kind of bug a maintainer could plausibly introduce in a refactoring or an optimisation: an off-by-one in a search or split, a dropped change notification, a skipped cleanup on an error path, a wrong boundary in a range check, a missing re-link of leaves, a reference-count slip, etc. Do not add dead code, environment-variable switches, or checks for magic values; the change should look like an honest edit of the existing logic. Do not edit tests.

How to build and test inside the worktree:
  cd {wt} && /venv/bin/python setup.py -q build_ext -i -j8        # rebuilds the C extensions in place (needed after any .c/.h change)
  cd {wt} && PYTHONPATH={wt}/src /venv/bin/python -m pytest -q -p no:cacheprovider     # the existing suite; must end with '1468 passed'
  PYTHONPATH={wt}/src /venv/bin/python your_demo.py                # runs a script against the worktree's build
Useful facts: the pure-Python classes are available as e.g. BTrees.IIBTree.IIBTreePy next to the C class BTrees.IIBTree.IIBTree; node sizes can be lowered with e.g. `IIBTree.max_leaf_size = 2; IIBTree.max_internal_size = 2` (class attributes, set before first use) to get deep trees with few keys; ZODB itself is NOT installed (only `persistent` and `transaction`), so anything about databases must be demonstrated with a small hand-written data manager/jar or through _p_resolveConflict / __getstate__ / __setstate__ / _p_deactivate directly. There is no network.

For EACH of the two changes deliver, in the directory {wt}/_seed/A and {wt}/_seed/B respectively:
  - patch.diff : `git diff` of the source change only (relative to the worktree HEAD; no test or _seed files in it)
  - demo.py    : a small self-contained program that exits 0 and prints PASS on the ORIGINAL code, and exits non-zero (or crashes) WITH the change applied - demonstrating the property violation through the public API
  - README.md  : which part of the property it breaks, and exactly what is needed for it to manifest (the sequence / shape / input / fault point), and the output of the test suite run with the change applied (last line).
Procedure for each: make the edit, rebuild, run the full test suite (must be 1468 passed; if a test fails, choose a different change), run demo.py (must fail), save `git diff -- src include > _seed/X/patch.diff`, then `git checkout -- src include`, rebuild, and confirm demo.py prints PASS on the original. Leave the worktree with the original sources at the end (git status clean apart from _seed/).

Report back briefly: for A and B, the file/function changed, a one-line description, what is needed to manifest, and confirmation of (1) suite passed with the change, (2) demo fails with the change, (3) demo passes without.""")
