"""Prints the prompt given to a fresh sub-agent that seeds a property-breaking change.
Only the property text and the worktree path go in; nothing from /verif."""
import json, sys
pid = sys.argv[1]
wt = sys.argv[2] if len(sys.argv) > 2 else '/tmp/seed/' + pid
wave = sys.argv[3] if len(sys.argv) > 3 else ''
# Wave 4 (seeds G/H): to spread the changes over the code, each agent is told WHERE in the anchored
# code its two changes must live (regions taken from the property's own anchors) - still nothing
# from /verif about what the checks do.
FOCUS = {
 'C01': ('the Set/TreeSet mutators and in-place operators (SetTemplate.c, TreeSetTemplate.c) or the leaf-level code of BucketTemplate.c (standalone Bucket/Set, pop/popitem/setdefault/update paths) - NOT the tree deletion path',
         'the pure-Python leaf classes and mixins of _base.py (Bucket/Set: _set, _del, setdefault, pop, popitem, update, _MutableSetMixin in-place operators) or _datatypes.py - NOT _Tree._del'),
 'C02': ('leaf-level range code (Bucket_findRangeEnd, Bucket_rangeSearch, bucket minKey/maxKey) or BTreeItems_slice / negative-index handling / BTreeItems length computation in BTreeItemsTemplate.c, or BTree_maxminKey',
         'pure-Python minKey/maxKey, _range of leaves, or _TreeItems __len__/__getitem__/slicing in _base.py'),
 'C03': ('the split code (bucket_split, BTree_split, BTree_split_root, BTree_grow) or the too-big tests / _max_*_size lookup incl. subclasses',
         'pure-Python _grow/_split/_split_root, the size-limit logic, or update()/clear() of trees'),
 'C04': ('change notification in set kinds (SetTemplate.c / TreeSetTemplate.c), bucket split/clear/pop paths, or BTree_getstate/bucket_getstate',
         'pure-Python Set/TreeSet/Bucket change notification (_p_changed), clear(), pop/popitem/setdefault, or __getstate__ of _Tree'),
 'C05': ('BTreeItemsTemplate.c (sequence/iterator code), BTree_length_or_nonzero, BTree_maxminKey, bucket-level use/unuse bracketing in BucketTemplate.c, or TreeSet/Set specific entry points',
         'a second, different C site: SetOpTemplate.c / MergeTemplate.c cursors, PreviousBucket, _bucket_clear/_BTree_clear/_p_deactivate, or an error path (bad key, missing key) of a mutator'),
 'C06': ('SetTemplate.c set_setstate/getstate, bucket_getstate/_bucket_setstate value handling, or the `next` handling of leaf states',
         'pure-Python __getstate__/__setstate__ of Set/Bucket/_Tree, __reduce__/_fix_pickle/_module_builder class naming'),
 'C07': ('MergeTemplate.c for SETS (the set branches of bucket_merge) or the tree wrappers get_bucket_state/BTree__p_resolveConflict, or handling of None/empty states',
         'pure-Python Set._p_resolveConflict or _Tree._p_resolveConflict (wrapping/unwrapping the embedded leaf state), or the merge_error reason codes'),
 'C08': ('the C deletion path / TreeSet path / clear path with respect to PER_READCURRENT and registration, or bucket _p_resolveConflict entry (BucketTemplate.c:1640-1700)',
         'pure-Python _Tree._del/_set/clear read-dependency declarations or Set/Bucket _p_resolveConflict successor-link test'),
 'C09': ('value conversion macros (intvaluemacros.h, floatvaluemacros.h), _fsBTree.c, or the Set/TreeSet entry points of the C code',
         'pure-Python _datatypes.py conversions or the Set/TreeSet/Bucket methods of _base.py (argument handling, results, exception classes)'),
 'C10': ('in-place operators of SetTemplate.c/TreeSetTemplate.c, Generic_set_xor, copyRemaining, or the result-kind selection / value copying of set_operation',
         'pure-Python _set_operation, _SetIteration, difference/union/intersection entry points, or _SetBase operators (__or__, __and__, __sub__, __xor__, in-place forms)'),
 'C11': ('the gather phase of multiunion_m (operand kinds, bucket_append, growth of the result vector) or quicksort/insertion sort in sorters.c',
         'pure-Python multiunion in _base.py or Set.update/_set append path it uses'),
 'C12': ('the weighted entry points wunion_m/wintersection_m (weights, defaults, returned weight, None short-circuit) or MERGE macros of float/int value headers',
         'pure-Python weightedUnion/weightedIntersection wrappers (weights, defaults, None handling, set+set case) or _datatypes.py multiplication/merge helpers'),
 'C13': ('the 64-bit conversion helpers longlong_convert/ulonglong_convert/..._as_object in BTreeModuleTemplate.c, the unsigned variants of intkeymacros.h/intvaluemacros.h, or _fsBTree.c',
         'pure-Python _datatypes.py (range checks, bool/float handling, fs lengths, object key validation)'),
 'C14': ('SetOpTemplate.c / MergeTemplate.c / set in-place operators / update() error exits',
         'pure-Python _set_operation/_SetIteration, Bucket._p_resolveConflict, update(), or leaf-level _set/_del with partial work before a comparison'),
 'C15': ('leaf-level iterators (Bucket/Set iteration, BucketTemplate.c nextBucket/getBucketEntry), BTreeItems_slice or negative index handling, or TreeSet iteration',
         'pure-Python _TreeItems/_TreeIterator indexing/len caching or Bucket iterkeys/itervalues/iteritems'),
 'C16': ('SetOpTemplate.c / MergeTemplate.c / BTreeItemsTemplate.c reference handling (cursors, results, error exits)',
         'a second, different C site: BucketTemplate.c setstate/getstate/pop/popitem/setdefault/update/byValue or TreeSetTemplate.c/SetTemplate.c in-place operators'),
 'C17': ('SetOpTemplate.c (set_operation result growth, multiunion gather), MergeTemplate.c merge_output, or sorters.c temporary buffer',
         'a second, different C site: _BTree_setstate/_set_setstate/bucket_split value vector/BTree_split/clone or copy paths'),
 'C18': ('check.py cracking/classification (crack_btree, crack_bucket, type tables) or the Checker for Set/TreeSet/kinds',
         'the _check() implementations: C BTree_check_inner for firstbucket/child-kind/size tests, or pure-Python _Tree._check'),
 'C19': ('Length.py __getstate__/__setstate__/__init__/__call__',
         'Length.py change()/set() and persistence notification, or a subtle arithmetic slip in _p_resolveConflict that only shows for particular sign/size combinations'),
}
for l in open('/verif/properties.jsonl'):
    p = json.loads(l)
    if p['id'] == pid:
        break
focus = ''
# Wave 5 (seeds I/J): instead of a region, each change is given a *manifestation class* (what it must
# need in order to show) - again nothing about what the checks do.
if wave == 'w5':
    focus = ("To spread independent reviewers over different kinds of defect, your two changes must be of these kinds "
             "(other kinds are assigned to other reviewers):\n"
             "  change A: a defect that only manifests under a SIZE or TYPE condition - e.g. only when a node is wide (a leaf holding "
             "at least 6 keys, an interior node with at least 6 children, a container past some count), only at a particular depth, "
             "or only for ONE particular key/value type variant (e.g. only unsigned keys, only 64-bit, only float values, only fsBTree, "
             "only object keys/values, only None as a key) or only for one of the four kinds (BTree / Bucket / TreeSet / Set); "
             "it must stay invisible for small signed-int IIBTree usage with a handful of keys.\n"
             "  change B: a defect in a rarely exercised entry point or argument form, or one that needs TWO steps through different "
             "API functions to show (e.g. state loaded through __setstate__/unpickling/copy and then mutated or searched; clear() and then "
             "reuse; a container used together with itself or with a subclass instance; a default/optional argument form; a bound "
             "that equals a stored key vs falls between keys; an operation that raises and a later successful one).\n"
             "Prefer one change in the C code and one in the pure-Python code where the property covers both.\n\n")
elif wave == 'w6':
    focus = ("To spread independent reviewers over different kinds of defect, your two changes must be of these kinds "
             "(other kinds are assigned to other reviewers):\n"
             "  change A: TWO COOPERATING EDITS - a refactoring that touches two places (a helper and one of its callers, a macro "
             "and one use, a flag set in one function and tested in another, C and Python both 'simplified' in the same way) such that each edit "
             "alone would be harmless or would be caught by the test suite, but together they break the property in a specific situation.\n"
             "  change B: a defect tied to OBJECT LIFECYCLE or ERROR RECOVERY - it shows only after a particular earlier event on the same "
             "object: the container was emptied and reused, was loaded from a state / unpickled / copied (exact-fit capacities, no cached "
             "sizes), was deactivated to a ghost and reloaded, had an earlier call fail part-way (bad key, bad value, comparison error, "
             "conflict) and is then used again, or an iterator / lazy sequence / result object outlives a change of its source.\n"
             "Prefer one change in the C code and one in the pure-Python code where the property covers both.\n\n")
elif wave == 'w7':
    focus = ("To spread independent reviewers over different kinds of defect, your two changes must be of these kinds "
             "(other kinds are assigned to other reviewers):\n"
             "  change A: a defect that needs a particular HISTORY of at least three steps through the container's life - e.g. grow "
             "past a split, then delete until a leaf (or a whole subtree) becomes empty and is unlinked, then search / iterate / insert / "
             "merge across the seam that the unlinking left; or build by update()/constructor from sorted data vs by single inserts; "
             "it must stay invisible for containers that only ever grew.\n"
             "  change B: a BOUNDARY defect - it shows only for an extreme position or value: the first or last key of a leaf, the first "
             "or last leaf of the tree, a key equal to a separator key of an interior node, an empty or single-element container or operand, "
             "the largest/smallest representable key or value of the family, a zero or negative weight, or an open bound (None) combined "
             "with an exclusive flag.\n"
             "Keep the TIME your work takes short: decide quickly, and run the full test suite only once per change.\n"
             "Prefer one change in the C code and one in the pure-Python code where the property covers both.\n\n")
elif wave and pid in FOCUS:
    fa, fb = FOCUS[pid]
    focus = ("To spread independent reviewers over the code base, your two changes must live in these regions "
             "(other regions are assigned to other reviewers):\n  change A: " + fa + "\n  change B: " + fb + "\n\n")
if pid == 'C17':
    focus += ("Allocation failures are injected with a build-time hook that is already in the source: when the extensions are built "
              "with the environment variable BTREES_VERIF=1 (cd " + wt + " && BTREES_VERIF=1 /venv/bin/python setup.py -q build_ext -i -j8 --force) "
              "every family module (e.g. BTrees._IIBTree) has a function _verif_alloc(fail1=-1, fail2=-1, sticky=0) - see "
              "src/BTrees/BTreeModuleTemplate.c near BTree_Malloc: it returns the number of allocation calls counted since the last call, "
              "resets the counter and arms the allocation calls with index fail1 / fail2 (0-based, counted from now) to return NULL. "
              "Your demo.py should use it (and exit 2 if the hook is missing). The test suite must pass on the NORMAL build "
              "(rebuild with --force and without BTREES_VERIF=1 before running the suite), the demo runs on the BTREES_VERIF=1 build.\n\n")
print(f"""You are helping to evaluate a verification effort for the Python package zopefoundation/BTrees (ZODB's persistent BTree/Bucket/Set/TreeSet containers: a pure-Python implementation in src/BTrees/_base.py plus a C implementation built from templates src/BTrees/*Template.c, instantiated per key/value family such as IIBTree, OOBTree, LFBTree ...).

You have your own scratch git worktree of the repository at {wt} (already built in place). Work ONLY inside {wt}. Do NOT read, list or touch /repo or /verif or any other directory under /tmp/seed - your work must be independent of them.

Here is a semantic property the package is supposed to satisfy:

  Title: {p['title']}
  Statement: {p['statement']}
  Quantified over: {p['quantifier']['text']}
  Code it is anchored in: {', '.join(p['anchors']['files'])}

{focus}YOUR TASK: produce TWO different, realistic source changes to the package (call them A and B; different root causes, preferably one in the C templates/headers and one in the pure-Python code - or both C if the property is about the C extension only) each of which BREAKS this property, while
  (1) the package still compiles, and
  (2) the package's existing test suite still passes completely (1468 passed), and
  (3) the breakage needs something SPECIFIC to manifest - a particular multi-step sequence of operations, a particular tree shape (e.g. after deletions, a multi-level tree, small max_leaf_size/max_internal_size), an unusual input or boundary value, a fault or eviction at a particular point, a particular interleaving, or two cooperating code sites that each look fine alone. NOT something ordinary use would expose at once (a change that breaks every insert is useless).
Think of the kind of bug a maintainer could plausibly introduce in a refactoring or an optimisation: an off-by-one in a search or split, a dropped change notification, a skipped cleanup on an error path, a wrong boundary in a range check, a missing re-link of leaves, a reference-count slip, etc. Do not add dead code, environment-variable switches, or checks for magic values; the change should look like an honest edit of the existing logic. Do not edit tests.

How to build and test inside the worktree:
  cd {wt} && /venv/bin/python setup.py -q build_ext -i -j8        # rebuilds the C extensions in place (needed after any .c/.h change)
  cd {wt} && PYTHONPATH={wt}/src /venv/bin/python -m pytest -q -p no:cacheprovider     # the existing suite; must end with '1468 passed'
  PYTHONPATH={wt}/src /venv/bin/python your_demo.py                # runs a script against the worktree's build
Useful facts: the pure-Python classes are available as e.g. BTrees.IIBTree.IIBTreePy next to the C class BTrees.IIBTree.IIBTree; node sizes can be lowered with e.g. `IIBTree.max_leaf_size = 2; IIBTree.max_internal_size = 2` (class attributes, set before first use) to get deep trees with few keys; ZODB itself is NOT installed (only `persistent` and `transaction`), so anything about databases must be demonstrated with a small hand-written data manager/jar or through _p_resolveConflict / __getstate__ / __setstate__ / _p_deactivate directly. There is no network.

For EACH of the two changes deliver, in the directory {wt}/_seed/A and {wt}/_seed/B respectively:
  - patch.diff : `git diff` of the source change only (relative to the worktree HEAD; no test or _seed files in it)
  - demo.py    : a small self-contained program that exits 0 and prints PASS on the ORIGINAL code, and exits non-zero (or crashes) WITH the change applied - demonstrating the property violation through the public API
  - README.md  : which part of the property it breaks, and exactly what is needed for it to manifest (the sequence / shape / input / fault point), and the output of the test suite run with the change applied (last line).
Procedure for each: make the edit, rebuild, run the full test suite (must be 1468 passed; if a test fails, choose a different change), run demo.py (must fail), save `git diff -- src include > _seed/X/patch.diff`, then `git checkout -- src include`, rebuild, and confirm demo.py prints PASS on the original. Leave the worktree with the original sources at the end (git status clean apart from _seed/).

Report back briefly: for A and B, the file/function changed, a one-line description, what is needed to manifest, and confirmation of (1) suite passed with the change, (2) demo fails with the change, (3) demo passes without.""")
