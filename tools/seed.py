#!/venv/bin/python
"""Seeded-change bookkeeping.

  tools/seed.py confirm <srcdir> <id> <prop>   # srcdir has patch.diff, demo.py, README.md
        -> scratch worktree of /repo HEAD under /tmp/seedchk: apply, build, run the repo's own
           suite (must pass), run demo (must fail), revert, rebuild, run demo (must pass);
           on success copies to /verif/seeded/<id>/ with meta.json; removes the worktree.
  tools/seed.py run <id> <check> [<check> ...] [--tier quick]
        -> git -C /repo apply seeded/<id>/patch.diff; run ./check <check> quick for each;
           git -C /repo checkout -- . ; records result in seeded/<id>/meta.json["detected_by"].
"""
import json
import os
import shutil
import subprocess
import sys
import time

V = '/verif'
PY = '/venv/bin/python'


def sh(cmd, cwd=None, env=None, timeout=3600):
    r = subprocess.run(cmd, shell=True, cwd=cwd, env=env, capture_output=True, text=True,
                       timeout=timeout)
    return r.returncode, r.stdout + r.stderr


def confirm(src, sid, prop):
    wt = '/tmp/seedchk/%s' % sid
    shutil.rmtree(wt, ignore_errors=True)
    sh('git -C /repo worktree prune')
    rc, out = sh('git -C /repo worktree add --detach %s HEAD' % wt)
    assert rc == 0, out
    env = dict(os.environ, PYTHONPATH=wt + '/src')
    meta = {'id': sid, 'property': prop, 'ran': []}
    ok = False
    try:
        rc, out = sh('git apply %s/patch.diff' % os.path.abspath(src), cwd=wt)
        if rc != 0:
            rc, out = sh('git apply -3 %s/patch.diff' % os.path.abspath(src), cwd=wt)
        meta['ran'].append(['git apply patch.diff', rc])
        if rc != 0:
            print('patch does not apply:', out)
            return False
        rc, out = sh('%s setup.py -q build_ext -i -j16' % PY, cwd=wt)
        meta['ran'].append(['setup.py build_ext -i', rc])
        if rc != 0:
            print('build failed', out[-2000:])
            return False
        rc, out = sh('%s -m pytest -q -p no:cacheprovider -x' % PY, cwd=wt, env=env)
        last = out.strip().splitlines()[-1] if out.strip() else ''
        meta['ran'].append(['pytest (suite, with change)', rc, last])
        print('suite with change:', last)
        if rc != 0 or '1468 passed' not in last:
            return False
        hook = os.environ.get('SEED_HOOK')
        if hook:    # demo needs the BTREES_VERIF=1 build (suite above ran on the normal build)
            rc, out = sh('BTREES_VERIF=1 %s setup.py -q build_ext -i -j16 --force' % PY, cwd=wt)
            meta['ran'].append(['BTREES_VERIF=1 setup.py build_ext -i --force (for demo)', rc])
        rc1, out1 = sh('%s %s/demo.py' % (PY, os.path.abspath(src)), cwd=wt, env=env, timeout=900)
        meta['ran'].append(['demo.py with change', rc1, out1.strip().splitlines()[-1:] ])
        print('demo with change: rc=%s %s' % (rc1, out1.strip().splitlines()[-1:]))
        sh('git checkout -- .', cwd=wt)
        rc, out = sh('%s%s setup.py -q build_ext -i -j16 --force' % ('BTREES_VERIF=1 ' if hook else '', PY), cwd=wt)
        rc0, out0 = sh('%s %s/demo.py' % (PY, os.path.abspath(src)), cwd=wt, env=env, timeout=900)
        meta['ran'].append(['demo.py without change', rc0, out0.strip().splitlines()[-1:]])
        print('demo without change: rc=%s %s' % (rc0, out0.strip().splitlines()[-1:]))
        ok = rc1 != 0 and rc0 == 0
    finally:
        sh('git -C /repo worktree remove --force %s' % wt)
        shutil.rmtree(wt, ignore_errors=True)
    if ok:
        dst = os.path.join(V, 'seeded', sid)
        os.makedirs(dst, exist_ok=True)
        for n in ('patch.diff', 'demo.py', 'README.md'):
            if os.path.exists(os.path.join(src, n)):
                shutil.copy(os.path.join(src, n), os.path.join(dst, n))
        readme = ''
        if os.path.exists(os.path.join(src, 'README.md')):
            readme = open(os.path.join(src, 'README.md')).read()
        meta['needs'] = readme[:1500]
        meta['confirmed_at_repo_head'] = sh('git -C /repo rev-parse --short HEAD')[1].strip()
        meta['detected_by'] = {}
        with open(os.path.join(dst, 'meta.json'), 'w') as f:
            json.dump(meta, f, indent=1)
        print('CONFIRMED ->', dst)
    return ok


def run_scratch(sid, checks, tier='quick'):
    """Like run(), but on a scratch worktree (VERIF_REPO) instead of /repo itself, so that several
    seeds can be tried at the same time and /repo stays untouched (development aid; the official
    way - git -C /repo apply - is run())."""
    d = os.path.join(V, 'seeded', sid)
    wt = '/tmp/seedrun/%s' % sid
    shutil.rmtree(wt, ignore_errors=True)
    sh('git -C /repo worktree prune')
    rc, out = sh('git -C /repo worktree add --detach %s HEAD' % wt)
    assert rc == 0, out
    res = {}
    try:
        rc, out = sh('git apply %s/patch.diff' % d, cwd=wt)
        if rc != 0:
            rc, out = sh('git apply -3 %s/patch.diff' % d, cwd=wt)
        assert rc == 0, out
        env = dict(os.environ, VERIF_REPO=wt, VERIF_SCRATCH=sid)
        for c in checks:
            t0 = time.time()
            rc, out = sh('./check %s %s' % (c, tier), cwd=V, env=env, timeout=7200)
            viol = [l for l in out.splitlines() if l.startswith('VIOLATION')]
            res[c] = {'exit': rc, 'violations': len(viol), 'first': (viol[:1] or [''])[0],
                      'wall_s': round(time.time() - t0, 1), 'tier': tier}
            first_detail = ''
            lines = out.splitlines()
            for i, l in enumerate(lines):
                if l.startswith('VIOLATION') and i + 1 < len(lines):
                    first_detail = lines[i + 1].strip()[:300]
                    break
            res[c]['detail'] = first_detail
            print('%s %s: exit=%s violations=%d  %s' % (sid, c, rc, len(viol), first_detail[:200]))
            if rc not in (0, 1):
                print(out[-1500:])
    finally:
        sh('git -C /repo worktree remove --force %s' % wt)
        shutil.rmtree(wt, ignore_errors=True)
    mp = os.path.join(d, 'meta.json')
    meta = json.load(open(mp))
    meta.setdefault('detected_by', {}).update(res)
    json.dump(meta, open(mp, 'w'), indent=1)


def run_old(sid, checks, commit):
    """Run the checks AS THEY WERE at /verif commit `commit` (a worktree under /tmp/verif_old) on the
    seeded change (scratch worktree of /repo): records which checks the change got past before they
    were strengthened (meta.json "missed_before_strengthening")."""
    d = os.path.join(V, 'seeded', sid)
    old = '/tmp/verif_old/%s' % commit
    if not os.path.isdir(old):
        os.makedirs('/tmp/verif_old', exist_ok=True)
        rc, out = sh('git -C %s worktree add --detach %s %s' % (V, old, commit))
        assert rc == 0, out
    wt = '/tmp/seedrun/old-%s' % sid
    shutil.rmtree(wt, ignore_errors=True)
    sh('git -C /repo worktree prune')
    rc, out = sh('git -C /repo worktree add --detach %s HEAD' % wt)
    assert rc == 0, out
    missed = []
    try:
        rc, out = sh('git apply %s/patch.diff' % d, cwd=wt)
        assert rc == 0, out
        env = dict(os.environ, VERIF_REPO=wt, VERIF_SCRATCH='old-' + sid)
        for c in checks:
            rc, out = sh('./check %s quick' % c, cwd=old, env=env, timeout=7200)
            viol = [l for l in out.splitlines() if l.startswith('VIOLATION')]
            print('%s %s @%s: exit=%s violations=%d' % (sid, c, commit, rc, len(viol)))
            if rc == 0:
                missed.append(c)
            elif rc != 1:
                print(out[-1500:])
    finally:
        sh('git -C /repo worktree remove --force %s' % wt)
        shutil.rmtree(wt, ignore_errors=True)
    mp = os.path.join(d, 'meta.json')
    meta = json.load(open(mp))
    lst = meta.setdefault('missed_before_strengthening', [])
    for c in missed:
        if c not in lst:
            lst.append(c)
    meta['old_verif_commit'] = commit
    json.dump(meta, open(mp, 'w'), indent=1)


def run(sid, checks, tier='quick'):
    d = os.path.join(V, 'seeded', sid)
    rc, out = sh('git -C /repo status --porcelain')
    assert out.strip() == '', '/repo not clean: ' + out
    rc, out = sh('git -C /repo apply %s/patch.diff' % d)
    assert rc == 0, out
    res = {}
    try:
        for c in checks:
            t0 = time.time()
            rc, out = sh('./check %s %s' % (c, tier), cwd=V, timeout=7200)
            viol = [l for l in out.splitlines() if l.startswith('VIOLATION')]
            res[c] = {'exit': rc, 'violations': len(viol), 'first': (viol[:1] or [''])[0],
                      'wall_s': round(time.time() - t0, 1), 'tier': tier}
            first_detail = ''
            lines = out.splitlines()
            for i, l in enumerate(lines):
                if l.startswith('VIOLATION') and i + 1 < len(lines):
                    first_detail = lines[i + 1].strip()[:300]
                    break
            res[c]['detail'] = first_detail
            print('%s %s: exit=%s violations=%d  %s' % (sid, c, rc, len(viol), first_detail[:200]))
            if rc not in (0, 1):
                print(out[-1500:])
    finally:
        sh('git -C /repo checkout -- .')
    mp = os.path.join(d, 'meta.json')
    meta = json.load(open(mp))
    meta.setdefault('detected_by', {}).update(res)
    json.dump(meta, open(mp, 'w'), indent=1)


if __name__ == '__main__':
    if sys.argv[1] == 'confirm':
        sys.exit(0 if confirm(sys.argv[2], sys.argv[3], sys.argv[4]) else 1)
    if sys.argv[1] == 'run-old':      # tools/seed.py run-old <id> <verif commit> <check>...
        run_old(sys.argv[2], sys.argv[4:], sys.argv[3])
        sys.exit(0)
    if sys.argv[1] in ('run', 'run-scratch'):
        args = sys.argv[2:]
        tier = 'quick'
        if '--tier' in args:
            i = args.index('--tier')
            tier = args[i + 1]
            del args[i:i + 2]
        (run if sys.argv[1] == 'run' else run_scratch)(args[0], args[1:], tier)
