#!/venv/bin/python
"""tools/timejobs.py <PROP> <tier> [substring ...]: run the jobs of a check whose repr contains all substrings;
print wall time, evaluations and violations per job (development aid)."""
import sys, os, time, importlib
sys.path.insert(0, os.path.dirname(os.path.dirname(os.path.abspath(__file__))))
os.environ.setdefault('PYTHONHASHSEED', '0')
from vt import build, pool
prop, tier = sys.argv[1], sys.argv[2]
subs = sys.argv[3:]
mod = importlib.import_module('vt.props.' + prop.lower())
jobs = [j for j in mod.jobs(tier) if all(s in repr(j) for s in subs)]
for i, j in enumerate(jobs):
    j.setdefault('mod', mod.__name__); j['id'] = i
print(len(jobs), 'jobs')
byf = {}
for j in jobs:
    byf.setdefault(j.get('flavour', 'plain'), []).append(j)
t0 = time.time()
rows = []
for fl, js in byf.items():
    env = build.worker_env(fl)
    js.sort(key=lambda j: -j.get('weight', 1))
    for j, r in pool.run_jobs(js, env, 16):
        if isinstance(r, pool.WorkerDied):
            print('DIED', j['args'], r.kind, r.case, r.stderr[-800:]); continue
        if not r.get('ok'):
            print('ERR', j['args'], r.get('error'), r.get('trace')); continue
        res = r['result']
        rows.append((round(r['wall'], 1), j.get('weight'), res.get('evaluations'), len(res.get('violations', [])), j['fn'], j['args']))
rows.sort(key=lambda x: -x[0])
for row in rows[:60]:
    print(row)
print('total cpu %.0f s, wall %.0f s' % (sum(r[0] for r in rows), time.time() - t0))
