#!/venv/bin/python
"""tools/thor_smoke.py <PROP> <seconds> [tier]: smoke test of a (thorough) tier under a time budget.
Runs the tier's jobs cheapest first - so that every KIND of job is reached early - until the budget is
used up; prints jobs done / total, fresh violations, known-finding cases, job errors and worker deaths.
A development aid for sizing tiers and for finding errors in code paths only the thorough tier reaches;
not a check, writes no evidence."""
import sys, os, time, importlib, collections
sys.path.insert(0, os.path.dirname(os.path.dirname(os.path.abspath(__file__))))
os.environ.setdefault('PYTHONHASHSEED', '0')
from vt import build, pool, findings as FM
prop, budget = sys.argv[1], float(sys.argv[2])
tier = sys.argv[3] if len(sys.argv) > 3 else 'thorough'
mod = importlib.import_module('vt.props.' + prop.lower())
jobs = mod.jobs(tier)
for i, j in enumerate(jobs):
    j.setdefault('mod', mod.__name__); j['id'] = i
# cheapest first, but interleave distinct (fn, group) so every kind of job is reached early
bykind = collections.defaultdict(list)
for j in sorted(jobs, key=lambda j: j.get('weight', 1)):
    bykind[(j['fn'], j.get('flavour', 'plain'))].append(j)
order = []
while any(bykind.values()):
    for k in list(bykind):
        if bykind[k]:
            order.append(bykind[k].pop(0))
t0 = time.time()
done = fresh = known = errs = died = 0
kinds_done = collections.Counter()
for fl in ('plain', 'asan'):
    js = [j for j in order if j.get('flavour', 'plain') == fl]
    if not js:
        continue
    env = build.worker_env(fl)
    gen = pool.run_jobs(js, env, 16)
    for j, r in gen:
        if isinstance(r, pool.WorkerDied):
            died += 1
            print('DIED', j['fn'], j['args'], r.kind, r.rc, r.case, r.stderr[-500:], flush=True)
        elif not r.get('ok'):
            errs += 1
            print('ERR', j['fn'], j['args'], r.get('error'), (r.get('trace') or '')[-1500:], flush=True)
        else:
            done += 1
            kinds_done[j['fn']] += 1
            for v in r['result'].get('violations', []):
                if FM.match(prop.upper(), v.get('sig', {})) is not None:
                    known += 1
                else:
                    fresh += 1
                    if fresh <= 5:
                        print('FRESH', j['fn'], j['args'], v.get('sig'), (v.get('detail') or '')[:300], flush=True)
        if time.time() - t0 > budget:
            gen.close()
            break
    if time.time() - t0 > budget:
        break
print('%s %s: %d of %d jobs in %.0f s (%s); fresh violations %d, known-finding cases %d, job errors %d, worker deaths %d'
      % (prop, tier, done, len(jobs), time.time() - t0, dict(kinds_done), fresh, known, errs, died), flush=True)
os._exit(0 if not (fresh or errs or died) else 1)
