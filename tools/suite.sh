#!/bin/bash
# Build /repo HEAD (or the working tree with -w) in a scratch worktree and run the repository's own suite.
set -e
wt=/tmp/suitechk.$$
git -C /repo worktree prune
git -C /repo worktree add --detach $wt HEAD >/dev/null 2>&1
if [ "$1" = "-w" ]; then (cd /repo && git diff) | (cd $wt && git apply --allow-empty); fi
cd $wt
/venv/bin/python setup.py -q build_ext -i -j16 >/dev/null 2>&1
PYTHONPATH=$wt/src /venv/bin/python -m pytest -q -p no:cacheprovider 2>&1 | tail -3
cd /
git -C /repo worktree remove --force $wt
rm -rf $wt
