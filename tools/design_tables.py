#!/venv/bin/python
"""Regenerates the generated blocks of DESIGN.md (between <!-- BEGIN:x --> / <!-- END:x -->):
findings (known_findings.json), seeds (seeded/*/meta.json), bounds (vt/props/*.bounds)."""
import glob, importlib, json, os, re, sys
V = os.path.dirname(os.path.dirname(os.path.abspath(__file__)))
sys.path.insert(0, V)


def findings():
    d = json.load(open(os.path.join(V, 'known_findings.json')))
    rows = ['| id | property | status | what fails (input / call site) | repo commit |', '|---|---|---|---|---|']
    def key(f):
        return (f['property'], f['status'] != 'open', f['id'])
    for f in sorted(d['findings'], key=key):
        what = f.get('what') or f.get('line', '')
        what = re.sub(r'^fixed: property=\S+ \S+ ', '', what)
        what = what.replace('|', '\\|').replace('\n', ' ')
        rows.append('| %s | %s | %s | %s | %s |' % (f['id'], f['property'],
                    'KNOWN (open)' if f['status'] == 'open' else 'fixed', what[:420], f.get('commit') or ''))
    return '\n'.join(rows)


def seeds():
    rows = ['| seed | property | change (first line of its README) | checks that report it | checks tried that stay silent |',
            '|---|---|---|---|---|']
    for mp in sorted(glob.glob(os.path.join(V, 'seeded', '*', 'meta.json'))):
        m = json.load(open(mp))
        readme = os.path.join(os.path.dirname(mp), 'README.md')
        title = ''
        if os.path.exists(readme):
            for l in open(readme):
                l = l.strip().lstrip('#').strip()
                if l:
                    title = l
                    break
        det = m.get('detected_by', {})
        hit = ['%s (%s)' % (c, r.get('tier', 'quick')) for c, r in sorted(det.items()) if r.get('exit') == 1]
        miss = [c for c, r in sorted(det.items()) if r.get('exit') == 0]
        miss += ['%s (before it was strengthened)' % c for c in m.get('missed_before_strengthening', [])]
        rows.append('| %s | %s | %s | %s | %s |' % (m['id'], m['property'], title.replace('|', '\\|')[:150],
                                                   ', '.join(hit) or '**none yet**', ', '.join(miss)))
    return '\n'.join(rows)


def bounds():
    rows = ['| property | level | bounds as implemented (`bounds()` of the check module) |', '|---|---|---|']
    for i in range(1, 20):
        pid = 'C%02d' % i
        try:
            mod = importlib.import_module('vt.props.' + pid.lower())
        except Exception as e:      # noqa
            rows.append('| %s | - | (no module: %s) |' % (pid, e))
            continue
        b = mod.bounds('quick') if hasattr(mod, 'bounds') else ''
        rows.append('| %s | %s | %s |' % (pid, mod.LEVEL, b.replace('|', '\\|')))
    return '\n'.join(rows)


def main():
    p = os.path.join(V, 'DESIGN.md')
    s = open(p).read()
    for name, fn in (('findings', findings), ('seeds', seeds), ('bounds', bounds)):
        a, b = '<!-- BEGIN:%s -->' % name, '<!-- END:%s -->' % name
        if a in s and b in s:
            i, j = s.index(a) + len(a), s.index(b)
            s = s[:i] + '\n' + fn() + '\n' + s[j:]
        else:
            print('marker missing:', name)
    open(p, 'w').write(s)


if __name__ == '__main__':
    main()
