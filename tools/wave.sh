#!/bin/bash
# tools/wave.sh <PROP> <letterA> <letterB> [extra checks...]: confirm the two seeds an agent left in
# /tmp/seed/<PROP>/_seed/{A,B} and run the property's own quick check (plus extras) on each, on scratch worktrees.
p=$1; la=$2; lb=$3; shift 3
for pair in A:$la B:$lb; do
  src=${pair%%:*}; l=${pair##*:}
  d=/tmp/seed/$p/_seed/$src
  [ -f $d/patch.diff ] || { echo "$p$l: no patch"; continue; }
  if [ "$p" = C17 ]; then export SEED_HOOK=1; else unset SEED_HOOK; fi
  if /venv/bin/python tools/seed.py confirm $d $p$l $p 2>&1 | tail -4; then :; fi
  if [ -d seeded/$p$l ]; then /venv/bin/python tools/seed.py run-scratch $p$l $p "$@" 2>&1 | tail -5; fi
done
