"""Private, content-addressed build of /repo's current working tree.

Nothing here touches /repo: sources are read, hashed, compiled with gcc into
/var/tmp/btrees-verif/<hash>/<flavour>/BTrees and the .py files are copied next to
the extensions.  Workers put that directory first on PYTHONPATH.
"""
import hashlib
import os
import shutil
import subprocess
import sys
import sysconfig
from concurrent.futures import ThreadPoolExecutor

REPO = os.environ.get('VERIF_REPO', '/repo')
CACHE = os.environ.get('VERIF_CACHE', '/var/tmp/btrees-verif')

FAMILIES = ("IO II IF IU UO UU UF UI LO LL LF LQ QO QQ QF QL "
            "OO OI OU OL OQ fs").split()

FLAVOURS = {
    # plain = as shipped (distutils builds extensions with -DNDEBUG: assert() compiled out); the asan
    # flavour keeps the assertions (-UNDEBUG), so both behaviours of an assert are explored
    'plain': ['-O1', '-g', '-fno-strict-overflow', '-DNDEBUG', '-DBTREES_VERIF=1'],
    'asan': ['-O1', '-g', '-fno-strict-overflow', '-fsanitize=address,undefined',
             '-fno-sanitize-recover=all', '-fno-omit-frame-pointer',
             '-UNDEBUG', '-DBTREES_VERIF=1'],
}


def _src_files():
    out = []
    d = os.path.join(REPO, 'src', 'BTrees')
    for n in sorted(os.listdir(d)):
        if n.endswith(('.c', '.h', '.py')):
            out.append(os.path.join(d, n))
    inc = os.path.join(REPO, 'include')
    for root, dirs, files in sorted(os.walk(inc)):
        dirs.sort()
        for n in sorted(files):
            out.append(os.path.join(root, n))
    return out


def source_hash():
    h = hashlib.sha256()
    for p in _src_files():
        h.update(p.encode())
        h.update(b'\0')
        with open(p, 'rb') as f:
            h.update(f.read())
        h.update(b'\0')
    h.update(repr(sorted(FLAVOURS.items())).encode())
    h.update(sys.version.encode())
    return h.hexdigest()[:20]


def _ext_suffix():
    return sysconfig.get_config_var('EXT_SUFFIX')


def _compile(family, flavour, outdir):
    inc = sysconfig.get_paths()['include']
    src = os.path.join(REPO, 'src', 'BTrees', '_%sBTree.c' % family)
    out = os.path.join(outdir, '_%sBTree%s' % (family, _ext_suffix()))
    cmd = ['gcc', '-shared', '-fPIC', '-w'] + FLAVOURS[flavour] + [
        '-I' + inc,
        '-I' + os.path.join(REPO, 'include', 'persistent'),
        '-I' + os.path.join(REPO, 'src', 'BTrees'),
    ]
    if family[0] != 'O':
        cmd.append('-DEXCLUDE_INTSET_SUPPORT')
    cmd += [src, '-o', out]
    r = subprocess.run(cmd, capture_output=True, text=True)
    return family, r.returncode, r.stderr


def build(flavour='plain', verbose=True):
    """Return the directory to put on PYTHONPATH (contains BTrees/)."""
    h = source_hash()
    base = os.path.join(CACHE, h, flavour)
    ok = os.path.join(base, '.ok')
    if os.path.exists(ok):
        return base
    tmp = base + '.tmp%d' % os.getpid()
    shutil.rmtree(tmp, ignore_errors=True)
    pkg = os.path.join(tmp, 'BTrees')
    os.makedirs(pkg)
    srcdir = os.path.join(REPO, 'src', 'BTrees')
    for n in os.listdir(srcdir):
        if n.endswith('.py'):
            shutil.copy(os.path.join(srcdir, n), os.path.join(pkg, n))
    with ThreadPoolExecutor(16) as ex:
        res = list(ex.map(lambda f: _compile(f, flavour, pkg), FAMILIES))
    bad = [(f, err) for f, rc, err in res if rc != 0]
    if bad:
        shutil.rmtree(tmp, ignore_errors=True)
        raise BuildError('\n'.join('%s: %s' % b for b in bad))
    open(os.path.join(tmp, '.ok'), 'w').close()
    os.makedirs(os.path.dirname(base), exist_ok=True)
    try:
        os.rename(tmp, base)
    except OSError:
        # somebody else finished first
        shutil.rmtree(tmp, ignore_errors=True)
    if not os.environ.get('VERIF_SCRATCH'):     # parallel development runs share the cache
        prune(keep=h)
    if verbose:
        print('[build] %s flavour built from %s (%s)' % (flavour, REPO, h),
              file=sys.stderr)
    return base


def prune(keep=None, keep_n=2):
    """Delete all but the newest keep_n source hashes (and `keep`)."""
    if not os.path.isdir(CACHE):
        return
    ents = []
    for n in os.listdir(CACHE):
        p = os.path.join(CACHE, n)
        if os.path.isdir(p):
            ents.append((os.path.getmtime(p), n, p))
    ents.sort(reverse=True)
    kept = 0
    for _, n, p in ents:
        if n == keep:
            continue
        kept += 1
        if kept >= keep_n:
            shutil.rmtree(p, ignore_errors=True)


def clean():
    shutil.rmtree(CACHE, ignore_errors=True)


class BuildError(Exception):
    pass


def worker_env(flavour='plain'):
    base = build(flavour)
    env = dict(os.environ)
    here = os.path.dirname(os.path.dirname(os.path.abspath(__file__)))
    env['PYTHONPATH'] = base + os.pathsep + here
    env['PURE_PYTHON'] = '0'
    env['PYTHONHASHSEED'] = '0'
    env['VERIF_BUILD_DIR'] = base
    env['VERIF_FLAVOUR'] = flavour
    if flavour == 'asan':
        def lib(n):
            return subprocess.run(['gcc', '-print-file-name=' + n],
                                  capture_output=True, text=True).stdout.strip()
        env['LD_PRELOAD'] = lib('libasan.so') + ':' + lib('libubsan.so')
        env['ASAN_OPTIONS'] = ('detect_leaks=0:abort_on_error=1:'
                               'allocator_may_return_null=1:handle_segv=1')
        env['UBSAN_OPTIONS'] = 'print_stacktrace=1:halt_on_error=1'
        env['PYTHONMALLOC'] = 'malloc'
    return env


if __name__ == '__main__':
    fl = sys.argv[1] if len(sys.argv) > 1 else 'plain'
    print(build(fl))
