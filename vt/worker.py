"""Worker process: executes jobs sent by the parent over stdin/stdout (length-prefixed
pickles).  Runs with the private BTrees build first on sys.path."""
import importlib
import os
import pickle
import struct
import sys
import traceback


def main():
    inp = sys.stdin.buffer
    out = os.fdopen(os.dup(sys.stdout.fileno()), 'wb')
    # stray prints must not corrupt the protocol
    os.dup2(sys.stderr.fileno(), sys.stdout.fileno())
    sys.stdout = sys.stderr
    from vt import slot
    if len(sys.argv) > 1:
        slot.attach(sys.argv[1])
    sys.setrecursionlimit(10000)
    while True:
        hdr = inp.read(4)
        if len(hdr) < 4:
            return
        n = struct.unpack('<I', hdr)[0]
        job = pickle.loads(inp.read(n))
        try:
            import time
            t0 = time.time()
            mod = importlib.import_module(job['mod'])
            res = getattr(mod, job['fn'])(**job.get('args', {}))
            if res is None:
                res = {}
            res = {'ok': True, 'result': res, 'wall': time.time() - t0}
        except BaseException as e:     # noqa
            res = {'ok': False, 'error': '%s: %s' % (type(e).__name__, e),
                   'harness': type(e).__name__ == 'HarnessError',
                   'trace': traceback.format_exc()}
        slot.set(('idle',))
        b = pickle.dumps(res, protocol=4)
        out.write(struct.pack('<I', len(b)))
        out.write(b)
        out.flush()


if __name__ == '__main__':
    main()
