"""Operation alphabet: one encoding applied to the implementation and to the model.

An op is a tuple of Python literals (so it can be written to a replay file with repr()
and read back with ast.literal_eval).
"""
import operator

from . import fam as F
from .kkey import UH

_marker = object()


class Ctx:
    """Where an op is applied: family / kind / implementation."""
    __slots__ = ('fam', 'kind', 'impl', 'cls', 'is_map', 'is_tree')

    def __init__(self, fam, kind, impl, subclass_sizes=None):
        self.fam, self.kind, self.impl = fam, kind, impl
        self.cls = F.cls(fam, kind, impl)
        if subclass_sizes:
            self.cls = type(self.cls.__name__ + 'Sub', (self.cls,),
                            {'max_leaf_size': subclass_sizes[0],
                             'max_internal_size': subclass_sizes[1],
                             '__module__': __name__})
            # an application's subclass is importable: records that refer to a child node of this
            # class pickle the class by reference
            globals()[self.cls.__name__] = self.cls
        self.is_map = F.is_map(kind)
        self.is_tree = F.is_tree(kind)

    def new(self):
        return self.cls()

    def other(self, kind):
        return F.cls(self.fam, kind, self.impl)


def outcome(fn, *a):
    try:
        return ('ok', fn(*a))
    except Exception as e:      # noqa - class is what is compared
        return ('exc', type(e).__name__)


class IterFault(Exception):
    """Raised by an argument's own iteration (a private class, like kkey.CmpFault)."""


class _ItemsObj:
    """An object that only offers items() (what Mapping.update documents next to sequences)."""

    def __init__(self, result):
        self._result = result

    def items(self):
        return self._result()


def _raising(items):
    for x in items:
        yield x
    raise IterFault('the iterable failed after %d items' % len(items))


def build_arg(ctx, form, items):
    """Materialise an `update`/operator argument for the SUT."""
    if form == 'raising':
        # an iterable that fails part-way: yields `items`, then raises IterFault
        if ctx.is_map:
            return _ItemsObj(lambda: _raising(items))
        return _raising(items)
    if form == 'noniter':
        # mappings: items() hands back something that cannot be iterated; sets: a non-iterable
        return _ItemsObj(lambda: 5) if ctx.is_map else 5
    if form == 'genpairs':
        return ((k, v) for k, v in items)
    if ctx.is_map:
        if form == 'dict':
            return dict(items)
        if form == 'pairs':
            return list(items)
        if form == 'tuplepairs':
            return tuple(items)
        if form == 'same':
            c = ctx.cls()
            for k, v in items:
                c[k] = v
            return c
        if form == 'bucket':
            c = ctx.other('Bucket')()
            for k, v in items:
                c[k] = v
            return c
        if form == 'btree':
            c = ctx.other('BTree')()
            for k, v in items:
                c[k] = v
            return c
    else:
        if form == 'list':
            return list(items)
        if form == 'tuple':
            return tuple(items)
        if form == 'gen':
            return (k for k in items)
        if form == 'pyset':
            return set(items)
        if form in ('same', 'set', 'treeset'):
            c = (ctx.cls if form == 'same' else
                 ctx.other('Set' if form == 'set' else 'TreeSet'))()
            for k in items:
                c.add(k)
            return c
    raise ValueError(form)


_INPLACE = {'ior': operator.ior, 'iand': operator.iand,
            'isub': operator.isub, 'ixor': operator.ixor}


def bad_key(fam):
    """A key the family cannot store (writes must raise TypeError and change nothing)."""
    kt = fam[0]
    if kt == 'O':
        return object()         # default comparison
    if kt == 'f':
        return b'x'
    return 'x'


def bad_value(fam):
    """A value the family cannot store, or None if every object is a value."""
    vt = fam[1]
    if vt == 'O':
        return None
    if vt == 's':
        return b'x'
    return 'x'


def apply_sut(ctx, t, op, arg=_marker):
    """Apply op to the real container; returns ('ok', value) | ('exc', name).
    `arg`: a pre-built operand for update / in-place operators (the fault enumerators build
    it before arming their interception points).
    While the call runs the unhashable key class is really unhashable (vt.kkey.UH)."""
    if arg is _marker and (op[0] == 'update' or op[0] in _INPLACE):
        arg = build_arg(ctx, op[1], op[2])
    UH.locked = True
    try:
        return _apply_sut(ctx, t, op, arg)
    finally:
        UH.locked = False


def _apply_sut(ctx, t, op, arg=_marker):
    name = op[0]
    if name == 'badkey':
        # ('badkey', how[, value]): a write with a key that cannot be stored
        bk = bad_key(ctx.fam)
        how = op[1]
        if how == 'setitem':
            return outcome(t.__setitem__, bk, op[2])
        if how == 'add':
            return outcome(t.add, bk)
        if how == 'update':
            return outcome(t.update, [(bk, op[2])] if ctx.is_map else [bk])
        raise ValueError(op)
    if name == 'badvalue':
        # ('badvalue', how, key): a write of a value that cannot be stored under a usable key
        bv = bad_value(ctx.fam)
        how = op[1]
        if how == 'setitem':
            return outcome(t.__setitem__, op[2], bv)
        if how == 'update':
            return outcome(t.update, [(op[2], bv)])
        raise ValueError(op)
    if name == 'setitem':
        return outcome(t.__setitem__, op[1], op[2])
    if name == 'delitem':
        return outcome(t.__delitem__, op[1])
    if name in ('insert', 'setdefault', 'pop', 'add', 'remove', 'discard', 'get',
                'has_key', 'minKey', 'maxKey'):
        return outcome(getattr(t, name), *op[1:])
    if name in ('popitem', 'clear'):
        return outcome(getattr(t, name))
    if name == 'update':
        r = outcome(t.update, build_arg(ctx, op[1], op[2]) if arg is _marker else arg)
        return ('ok', None) if r[0] == 'ok' else r
    if name in _INPLACE:
        if arg is _marker:
            arg = build_arg(ctx, op[1], op[2])

        def f():
            r = _INPLACE[name](t, arg)
            if r is not t:
                raise AssertionError('in-place operator returned a different object')
            return None
        return outcome(f)
    if name == 'getitem':
        return outcome(t.__getitem__, op[1])
    if name == 'contains':
        return outcome(t.__contains__, op[1])
    if name == 'len':
        return outcome(len, t)
    if name == 'bool':
        return outcome(bool, t)
    raise ValueError(op)


def _raise_type_error():
    raise TypeError


def apply_model(m, op):
    name = op[0]
    if name in ('badkey', 'badvalue'):
        return outcome(_raise_type_error)       # refused, nothing changes
    if name == 'update':
        return outcome(m.update, op[2])
    if name in _INPLACE:
        return outcome(getattr(m, name), op[2])
    if name == 'has_key':
        return outcome(m.contains, op[1])
    if name == 'len':
        return outcome(m.length)
    if name == 'bool':
        return outcome(lambda: m.length() > 0)
    return outcome(getattr(m, name), *op[1:])


def same_outcome(op, rs, rm):
    """Compare implementation and model outcomes under the documented conventions."""
    if rs[0] != rm[0]:
        return False
    if rs[0] == 'exc':
        return rs[1] == rm[1]
    name = op[0]
    if name == 'has_key':
        return bool(rs[1]) == bool(rm[1])
    if name in ('clear', 'discard', 'remove', 'setitem', 'delitem', 'update'):
        return True     # no documented return value
    a, b = rs[1], rm[1]
    if isinstance(b, tuple) and isinstance(a, tuple):
        return a == b
    return a == b and (type(a) is type(b) or not isinstance(b, (bytes, str)))


def contents(ctx, t):
    """Ordered contents through the public API."""
    if ctx.is_map:
        return list(t.items())
    return list(t.keys())


def fast_apply(ctx, t, op):
    """Replay without looking at results (exceptions are part of histories)."""
    try:
        apply_sut(ctx, t, op)
    except Exception:
        pass
