"""Families, kinds, implementations, key universes and value alphabets.

Imported only inside worker processes (needs the private BTrees build on sys.path).
"""
import importlib
import os
import struct

FAMILIES = ("IO II IF IU UO UU UF UI LO LL LF LQ QO QQ QF QL "
            "OO OI OU OL OQ fs").split()
COVER = "OO IF LQ UI QL OU fs".split()     # every key & value macro variant once
KINDS = ('BTree', 'Bucket', 'TreeSet', 'Set')
TREE_KINDS = ('BTree', 'TreeSet')
MAP_KINDS = ('BTree', 'Bucket')
IMPLS = ('c', 'py')

INT_RANGE = {
    'I': (-2**31, 2**31 - 1),
    'U': (0, 2**32 - 1),
    'L': (-2**63, 2**63 - 1),
    'Q': (0, 2**64 - 1),
}


def check_build():
    import BTrees
    want = os.environ.get('VERIF_BUILD_DIR')
    if want and not os.path.abspath(BTrees.__file__).startswith(want):
        raise RuntimeError('BTrees imported from %s, expected under %s'
                           % (BTrees.__file__, want))


_mods = {}


def module(fam):
    m = _mods.get(fam)
    if m is None:
        check_build()
        m = _mods[fam] = importlib.import_module('BTrees.%sBTree' % fam)
        for kind in TREE_KINDS:
            for suffix in ('', 'Py'):
                c = getattr(m, fam + kind + suffix)
                _defaults[(fam, kind, suffix)] = (c.max_leaf_size, c.max_internal_size)
    return m


_defaults = {}


def reset_sizes(fam):
    """Back to the node sizes the classes had when first imported in this process."""
    m = module(fam)
    for (f, kind, suffix), (l, i) in _defaults.items():
        if f == fam:
            c = getattr(m, fam + kind + suffix)
            c.max_leaf_size, c.max_internal_size = l, i


def cmodule(fam):
    return importlib.import_module('BTrees._%sBTree' % fam)


def cls(fam, kind, impl):
    m = module(fam)
    c = getattr(m, fam + kind + ('Py' if impl == 'py' else ''))
    if impl == 'c':
        assert not c.__name__.endswith('Py') and c is not getattr(m, fam + kind + 'Py'), \
            'C extension missing for ' + fam
    return c


def is_map(kind):
    return kind in MAP_KINDS


def is_tree(kind):
    return kind in TREE_KINDS


def tree_kind_of(kind):
    return {'Bucket': 'BTree', 'Set': 'TreeSet'}.get(kind, kind)


def leaf_kind_of(kind):
    return {'BTree': 'Bucket', 'TreeSet': 'Set'}.get(kind, kind)


class Sizes:
    """Context manager setting node sizes on the real tree classes of a family."""

    def __init__(self, fam, leaf, internal):
        self.fam, self.leaf, self.internal = fam, leaf, internal
        self.saved = []

    def __enter__(self):
        for kind in TREE_KINDS:
            for impl in IMPLS:
                c = cls(self.fam, kind, impl)
                self.saved.append((c, c.max_leaf_size, c.max_internal_size))
                c.max_leaf_size = self.leaf
                c.max_internal_size = self.internal
        return self

    def __exit__(self, *a):
        for c, l, i in self.saved:
            c.max_leaf_size = l
            c.max_internal_size = i
        self.saved = []


def set_sizes(fam, leaf, internal):
    for kind in TREE_KINDS:
        for impl in IMPLS:
            c = cls(fam, kind, impl)
            c.max_leaf_size = leaf
            c.max_internal_size = internal


# --------------------------------------------------------------------------
# key universes: (keys, probes); probes is a sorted superset of keys containing
# values in the gaps below / between / above the keys where the domain has room.

def skey(k):
    """Sort key giving the BTrees order: None smallest, then natural order."""
    return (k is not None, 0 if k is None else k)


def _fs_key(p):
    return struct.pack('>H', 0x00f0 + 7 * p)


def universe(fam, n, variant='centred'):
    kt = fam[0]
    if variant == 'centred':
        if kt in 'IL':
            grid = [p - n for p in range(2 * n + 1)]
        elif kt in 'UQ':
            grid = [p + 10 for p in range(2 * n + 1)]
        elif kt == 'O':
            grid = [p - n for p in range(2 * n + 1)]
        elif kt == 'f':
            grid = [_fs_key(p) for p in range(2 * n + 1)]
        keys = grid[1::2]
        return keys, grid
    if variant == 'none':          # object keys: None + ints
        assert kt == 'O'
        grid = [None] + [p for p in range(2 * n)]
        keys = [None] + grid[2::2][:n - 1]
        return keys, grid
    if variant == 'K':           # instrumented keys (vt.kkey.K), object-keyed families only
        assert kt == 'O'
        from .kkey import K
        grid = [K(p - n) for p in range(2 * n + 1)]
        return grid[1::2], grid
    if variant == 'unhash':      # orderable but unhashable keys (vt.kkey.UH), object-keyed families only
        assert kt == 'O'
        from .kkey import UH
        grid = [UH(p - n) for p in range(2 * n + 1)]
        return grid[1::2], grid
    if variant == 'str':
        assert kt == 'O'
        grid = ['k%02d' % p for p in range(2 * n + 1)]
        return grid[1::2], grid
    if variant == 'tuple':
        assert kt == 'O'
        grid = [(p // 3, p % 3) for p in range(2 * n + 1)]
        return grid[1::2], grid
    if variant == 'extreme':
        if kt == 'O':
            lo, hi = -2**70, 2**70
        elif kt == 'f':
            vals = [0, 1, 2, 0x00ff, 0x0100, 0x7fff, 0x8000, 0xff00, 0xfffd, 0xfffe, 0xffff]
            grid = [struct.pack('>H', v) for v in vals]
            keys = _pick_extreme(grid, n)
            return keys, grid
        else:
            lo, hi = INT_RANGE[kt]
        mid = (lo + hi + 1) // 2
        grid = [lo, lo + 1, lo + 2, mid - 2, mid - 1, mid, mid + 1, mid + 2,
                hi - 2, hi - 1, hi]
        keys = _pick_extreme(grid, n)
        return keys, grid
    raise ValueError(variant)


def _pick_extreme(grid, n):
    # always both ends; then alternate inwards leaving gaps
    order = [0, len(grid) - 1, len(grid) // 2, 2, len(grid) - 3, 4, len(grid) - 5,
             1, len(grid) - 2]
    idx = sorted(order[:n])
    return [grid[i] for i in idx]


def variants(fam):
    v = ['centred', 'extreme']
    if fam[0] == 'O':
        v.append('none')
    return v


# --------------------------------------------------------------------------
# values

def values(fam):
    """Two distinct representable values for the family's value type."""
    vt = fam[1]
    if vt == 'I':
        return (7, -2**31)
    if vt == 'U':
        return (7, 2**32 - 1)
    if vt == 'L':
        return (7, -2**63)
    if vt == 'Q':
        return (7, 2**64 - 1)
    if vt == 'F':
        return (0.5, -1.5)
    if vt == 'O':
        return ('a', 'b')
    if vt == 's':
        return (b'aaaaaa', b'\xff\x00\xff\x00\xff\x00')
    raise ValueError(vt)


def values2(fam):
    """A second pair of representable values that are NEARLY equal: they differ only in the high half
    (64-bit), in a low-order bit below the integer part (float), in the last byte (fs) - a comparison or
    copy that looks at part of the value only (a prefix, an int conversion) takes them for the same."""
    vt = fam[1]
    if vt == 'I':
        return (7, 7 - 2**31)           # differ in the sign bit only
    if vt == 'U':
        return (7, 7 + 2**31)
    if vt == 'L':
        return (7, 7 + 2**32)           # equal in the low 32 bits
    if vt == 'Q':
        return (7 + 2**63, 7 + 2**63 + 2**32)
    if vt == 'F':
        return (0.5, 0.5 + 2.0 ** -20)  # both exact in single precision, same integer part
    if vt == 'O':
        return ('value-a', 'value-b')
    if vt == 's':
        return (b'aaaaaa', b'aaaaab')   # common 5-byte prefix
    raise ValueError(vt)


def small_values(fam):
    """Values suitable for arithmetic (weights)."""
    vt = fam[1]
    if vt == 'F':
        return (0.5, 2.0)
    return (1, 3)


def has_weighted(fam):
    return fam[1] in 'IULQF'


def has_multiunion(fam):
    return fam[0] in 'IULQ'
