"""Instrumented key class for the fault / schedule enumerators (C05, C14, C16).

K(v) orders like the integer v.  While ARMED every rich comparison is an interception
point: it is counted, and the n-th one can raise CmpFault or call a hook (cache sweep).
Disarmed (the harness' own bookkeeping) comparisons are plain and uncounted.
"""


class CmpFault(Exception):
    """Private exception class: deliberate TypeError->absent translations cannot swallow it."""


class _State:
    armed = False
    count = 0
    fail_at = None      # index of the comparison that raises
    hook_at = ()        # indices of the comparisons that call hook()
    hook = None
    fired = False           # the last requested interception point was reached
    fault_fired = False
    hooks_fired = 0


S = _State()


def arm(fail_at=None, hook_at=None, hook=None):
    """hook_at: an index or a collection of indices."""
    S.armed = True
    S.count = 0
    S.fail_at = fail_at
    if hook_at is None:
        S.hook_at = ()
    elif isinstance(hook_at, int):
        S.hook_at = (hook_at,)
    else:
        S.hook_at = tuple(hook_at)
    S.hook = hook
    S.fired = False
    S.fault_fired = False
    S.hooks_fired = 0


def disarm():
    S.armed = False
    n = S.count
    return n


def _point():
    n = S.count
    S.count = n + 1
    if n == S.fail_at:
        S.fired = True
        S.fault_fired = True
        raise CmpFault(n)
    if n in S.hook_at:
        S.hooks_fired += 1
        if S.fail_at is None and S.hooks_fired == len(S.hook_at):
            S.fired = True
        # the hook runs foreign code inside the operation; it must not be intercepted itself
        S.armed = False
        try:
            S.hook()
        finally:
            S.armed = True


class K:
    __slots__ = ('v', '__weakref__')

    def __init__(self, v):
        self.v = v

    def __hash__(self):
        return hash(self.v)

    def __repr__(self):
        return 'K(%r)' % (self.v,)

    def __reduce__(self):
        return (K, (self.v,))

    def __lt__(self, o):
        if S.armed:
            _point()
        return self.v < o.v

    def __gt__(self, o):
        if S.armed:
            _point()
        return self.v > o.v

    def __le__(self, o):
        if S.armed:
            _point()
        return self.v <= o.v

    def __ge__(self, o):
        if S.armed:
            _point()
        return self.v >= o.v

    def __eq__(self, o):
        if not isinstance(o, K):
            return False
        if S.armed:
            _point()
        return self.v == o.v

    def __ne__(self, o):
        if not isinstance(o, K):
            return True
        if S.armed:
            _point()
        return self.v != o.v


class UH:
    """Orderable but UNHASHABLE object key (like a list), for the object-keyed families.

    UH(v) orders and compares like the integer v.  While UH.locked is set - i.e. while a call into
    the implementation is running (vt.ops.apply_sut and the run() helpers of the input-cube checks
    set it) - hash() raises TypeError exactly as for a list; outside such calls the harness' own
    bookkeeping (reference models, canonical forms, seen-sets) may hash it.  So an operation that
    hashes its keys fails for these keys although the containers only need an ordering."""
    __slots__ = ('v',)
    locked = False

    def __init__(self, v):
        self.v = v

    def __hash__(self):
        if UH.locked:
            raise TypeError("unhashable type: 'UH'")
        return hash(('UH', self.v))

    def __repr__(self):
        return 'UH(%r)' % (self.v,)

    def __reduce__(self):
        return (UH, (self.v,))

    def __lt__(self, o):
        return self.v < o.v if isinstance(o, UH) else NotImplemented

    def __gt__(self, o):
        return self.v > o.v if isinstance(o, UH) else NotImplemented

    def __le__(self, o):
        return self.v <= o.v if isinstance(o, UH) else NotImplemented

    def __ge__(self, o):
        return self.v >= o.v if isinstance(o, UH) else NotImplemented

    def __eq__(self, o):
        return self.v == o.v if isinstance(o, UH) else NotImplemented

    def __ne__(self, o):
        return self.v != o.v if isinstance(o, UH) else NotImplemented
