"""Regenerates MANIFEST.json from the table below:  python -m vt.manifest"""
import json
import os

HERE = os.path.dirname(os.path.dirname(os.path.abspath(__file__)))

CHECKS = {}
NOT_APPLICABLE = {}


def check(pid, category, text, note, technique, engine, design_ref):
    CHECKS[pid] = dict(
        property_id=pid,
        quick_cmd='./check %s quick' % pid,
        thorough_cmd='./check %s thorough' % pid,
        evidence_file='/verif/evidence/%s.json' % pid,
        replay_cmd_template='./check replay {path}',
        engine=engine,
        level_claimed=dict(category=category, text=text, design_ref=design_ref),
        level_note=note,
        technique=technique,
    )


TB = ('Trusted: CPython 3.12, persistent 6.8, gcc/libasan, the vt harness (explorer, reference '
      'models, canonical dump). Bounded: key universes <= 8 keys at node sizes 2..4 (every shape), <= 13 keys at the '
      'wide node sizes 2/8, 8/2, 6/6 (thinning spaces), single operations on scripted states of up to 800 keys at the '
      'default node sizes.')

check('C01', 'model_checking',
      'Exhaustive BFS over every reachable structural state of the real container (C and Python, '
      'all 22 families, 4 kinds) for small key universes and node sizes; every alphabet operation '
      'is executed in every state and compared with a reference sorted map (result, exception '
      'class, full contents), plus every read probe for every key/gap in every state.',
      TB, 'explicit-state BFS over the implementation vs reference model', 'E1', 'DESIGN.md §4 C01')

check('C02', 'model_checking',
      'In every reachable shape of the shape spaces (BFS fixed point, C and Python, all families): every '
      'range call for every (min,max) over keys, gap positions, omitted and None x 4 exclusion flag '
      'combinations x keys/values/items/iter*, minKey/maxKey of every bound, and len/index/slice/'
      'descending re-index probes of the lazy sequences, compared with an interval filter over the '
      'reference model.',
      TB, 'explicit-state BFS over the implementation; exhaustive query cube per state vs interval filter',
      'E1', 'DESIGN.md §4 C02')

check('C03', 'model_checking',
      'After every transition of the shape spaces (full mutating alphabet, node sizes {2,3,4}^2 set on '
      'the classes and via subclasses): t._check(), BTrees.check.check(t) and an independent B+-tree '
      'walk over the recursive __getstate__ dump (chain/descent agreement, no empty node, uniform '
      'kinds, key ranges, capacity limits), plus descent and chain contents equal to the model.',
      TB, 'explicit-state BFS over the implementation; invariant checked after every transition',
      'E1', 'DESIGN.md §4 C03')

check('C06', 'model_checking',
      'In every reachable shape (C and Python, all families and kinds): setstate(getstate), pickle round '
      'trip for protocols 0..5 loaded with the C classes and with the pure-Python classes, copy, deepcopy; '
      'byte equality of the C and Python pickles of the same history; every alphabet operation applied to a '
      'reloaded copy compared with the reference model, followed by _check() and the independent walk.',
      TB, 'explicit-state BFS over the implementation; round-trip and cross-implementation oracle per state',
      'E1', 'DESIGN.md §4 C06')

check('C09', 'model_checking',
      'Lock-step product BFS: state = (canonical C container, canonical Python container); every op of the '
      'normal alphabet plus an argument alphabet of every Python type (in/out-of-range ints around every '
      'boundary, bool, floats incl. inf/nan, str, bytes of several lengths, None, tuples, default-comparison '
      'and custom comparable objects) as key, as value and as range bound is applied to both in every '
      'reachable state; compared: result, exception class, contents, shape, pickle bytes; plus the absolute '
      'rule for typed domains (absence for reads, TypeError + unchanged for writes).',
      TB, 'lock-step explicit-state BFS over both implementations', 'E2', 'DESIGN.md §4 C09')

check('C18', 'exploration',
      'For every reachable shape (C and Python): the pristine tree and its re-materialisation through '
      '__setstate__ are accepted by check() and _check(); every single application of 14 corruption '
      'operators at every position (key swap/duplicate/shift, separator below/above range, next dropped/'
      'skipping/self/backwards, emptied leaf, emptied interior node, wrong firstbucket at every node, '
      'mixed child kinds) that the independent walk classifies as corrupt must be rejected with '
      'AssertionError by check() or _check().',
      TB, 'exhaustive enumeration of single corruptions over every reachable shape (BFS state space)',
      'E1', 'DESIGN.md §4 C18')

check('C04', 'model_checking',
      'BFS whose transitions are transactions (1..L alphabet operations, then commit or abort) on one '
      'long-lived writer connection of an in-memory database that writes exactly the registered objects and '
      'what is newly reachable from them, in ZODB order; state = canonical committed tree + record layout. '
      'After every commit a fresh reader built from the stored records only is compared with the model and '
      'the writer (contents, shape, _check, check, independent walk); after every abort the writer must show '
      'the last committed contents, and the same transaction must then commit correctly.',
      TB + ' MiniDB (vt/minidb.py) stands in for ZODB: commit order, conflict detection and MVCC are '
      'reproduced from its documented behaviour.',
      'explicit-state BFS over transactions on the real persistence hooks', 'E1+E4', 'DESIGN.md §4 C04')

check('C19', 'exploration',
      'Every (old, a, b) of an integer cube plus big-integer corners resolved through _p_resolveConflict and '
      'end-to-end through two MiniDB connections in both commit orders (stored value must be old+a+b); plus '
      'a BFS of all short event histories (set/change/call/getstate/pickle/copy/commit/abort/evict/reader) '
      'of a stored Length against an integer cell with a committed shadow.',
      'Trusted: CPython, persistent 6.8, vt.minidb. The quantifier over all integers is unbounded: only the '
      'cube [-B,B]^3 and 13 corner values cubed are exercised - bounded exhaustive enumeration cannot do more.',
      'exhaustive enumeration of an input cube and of both commit schedules; BFS of cell event histories',
      'E5+E4', 'DESIGN.md §4 C19')

check('C07', 'exploration',
      'Every ordered triple (old, committed, new) of leaf states over 4 keys x 2 values (531441 mapping '
      'triples, 4096 set triples per family) is resolved by the C and by the pure-Python class and compared '
      'with an independent three-way-merge specification (exact state equality or BTreesConflictError) and '
      'with each other (same decision, same reason code); plus six successor-link variants, None/empty '
      'spellings, BTree/TreeSet wrappers around one embedded leaf, multi-leaf tree states (always refused) '
      'and malformed shapes (robustness only).',
      TB, 'exhaustive enumeration of the input cube against an executable specification', 'E5',
      'DESIGN.md §4 C07')

check('C08', 'model_checking',
      'For every committed base tree (every reachable shape of the shape spaces at node sizes 2/2, 3/2, 4/2) '
      'every ordered pair of single-operation transactions (insert of every absent universe or gap key, '
      'delete and value change of every present key, clear) is run on two connections opened at the same '
      'snapshot and committed in both orders under optimistic concurrency control with conflict resolution; '
      'a third fresh connection must find a conflict-free outcome only if the stored tree is sound and holds '
      'the serial result or the key-disjoint merge; the connection log must show every stored interior node '
      'on each write\'s descent path as read-current-declared (or registered) and nothing for pure reads.',
      TB + ' MiniDB (vt/minidb.py) stands in for ZODB (serial check, _p_resolveConflict with one shared '
      'PersistentReference factory, readCurrent verification, atomic commit).',
      'exhaustive enumeration of transaction pairs and commit schedules over a BFS state space', 'E1+E4',
      'DESIGN.md §4 C08')

check('C10', 'exploration',
      'Every ordered pair of subsets of the key universe x 13 x 13 operand forms (Set, TreeSet, Bucket, BTree '
      'in ascending-built and deletion-thinned shapes at node sizes 2/2, sorted list, shuffled list with a '
      'duplicate, tuple, generator, Python set, dict, None) x module union/intersection/difference, | & - ^ '
      'and |= &= -= ^= : key list equal to Python set algebra, strictly ascending, documented result kind, '
      'difference keeps the first operand\'s values, None conventions, non-target operands unchanged; '
      'all 22 families, both implementations, centred and extreme universes.',
      TB, 'exhaustive enumeration of the operand cube against set algebra', 'E5', 'DESIGN.md §4 C10')

check('C12', 'exploration',
      'For every ordered pair of key subsets, every pair of operand forms (Set, TreeSet, Bucket, BTree in two '
      'shapes, None) and every weight pair of the value type\'s alphabet (incl. 0, negative, beyond 32 bits, '
      'fractional for float families, and the default-weight call forms) weightedUnion and '
      'weightedIntersection are compared with the documented formula evaluated exactly (returned weight, '
      'result kind, items), unrepresentable exact results being skipped; operands unchanged; all 16 '
      'numeric-valued families, both implementations.',
      TB, 'exhaustive enumeration of the operand x weight cube against the documented formula', 'E5',
      'DESIGN.md §4 C12')

check('C11', 'exploration',
      'multiunion for all 16 integer-key families and both implementations: (a) every operand list of length '
      '<= 2 (and a reduced alphabet of length 3) whose operands are ints or Set/TreeSet/Bucket/BTree/list/'
      'generator over any subset of a 5-point universe containing both extremes of the key type; (b) a '
      'deterministic catalogue of key sequences (arithmetic progressions anchored at both range ends, around '
      'zero and around the top-bit boundary with steps up to 2^24+1; byte-alphabet products at several byte '
      'positions) of total size 799..4096 - both sides of the quicksort/radix switch - in ascending, '
      'descending, stride-interleaved and with-duplicates order, passed as one, two or many operands; result '
      '== sorted(set(inputs)), is the family Set, membership and range queries agree.',
      TB, 'exhaustive enumeration of a small operand space plus a deterministic boundary catalogue', 'E5',
      'DESIGN.md §4 C11')

check('C13', 'exploration',
      'For every family x kind x implementation x base container (empty, single leaf, multi-leaf) x writing '
      'entry point ([]=, insert, setdefault, update(dict|pairs), constructor(dict|pairs), __setstate__, add, '
      'update(list), constructor(list), |=) x 70 boundary values (every integer within 2 of +-2^31, 2^32, '
      '+-2^63, 2^64, huge ints, bools, floats incl. +-0.0, inexact, 2^24+1, FLT_MAX, just above it, 1e39, '
      'subnormal, underflowing, inf, nan, str, bytes of length 0..8, None, tuples, default-comparison and '
      'custom comparable objects) as key and as value: an independent representability table decides between '
      '"stored and reads back exactly (floats: single-precision rounding)" and "TypeError, container '
      'unchanged"; lookups of unrepresentable keys report absence.',
      TB, 'exhaustive enumeration of a boundary-value x entry-point cube against an independent table', 'E5',
      'DESIGN.md §4 C13')

check('C14', 'fault_enumeration',
      'Object-keyed families, all four kinds, both implementations: in every reachable shape of the shape '
      'spaces (instrumented key class) every operation of the fault alphabet (lookups, inserts of every '
      'absent key, replace, delete, pop, setdefault, discard, range searches and minKey/maxKey with present, '
      'gap and outside bounds, update, in-place set operators with list and container operands, module '
      'union/intersection/difference, leaf conflict merges) is run once to count its key comparisons and '
      'then once for EVERY comparison index with that comparison raising a private exception: the exception '
      'must reach the caller, contents == before or == completed, _check/check/independent walk pass and a '
      'follow-up workload agrees with the model.',
      TB, 'exhaustive single-fault enumeration over every comparison index of every operation in every '
      'state of a BFS state space', 'E3', 'DESIGN.md §4 C14')

check('C17', 'fault_enumeration',
      'C extension, sanitizer build, allocation-failure hook: for every reachable shape x three construction '
      'routes (API history, unpickled copy with exact-fit capacities, grown-and-deleted-back with slack) x '
      'every allocating operation (insert of every absent key - leaf growth, leaf split, interior split, root '
      'split, first insert -, setdefault, multi-key update and in-place operators, constructor, __setstate__, '
      'unpickle, union/intersection/difference/weighted forms, conflict merge; multiunion on both sides of the '
      '800 switch) the module\'s allocations are counted and the operation is re-run once for EVERY allocation '
      'index with that allocation returning NULL: MemoryError, contents == before or == completed, sound, '
      'follow-up workload agrees with the model, AddressSanitizer/UBSan silent.',
      TB + ' The hook (BTREES_VERIF) fails only malloc/realloc calls made by the extension module.',
      'exhaustive single-fault enumeration over every allocation index of every operation in every state of '
      'a BFS state space', 'E3', 'DESIGN.md §4 C17')

check('C15', 'exploration',
      'From every reachable shape (N=4 @2/2, all four kinds, both implementations, C under AddressSanitizer) '
      'every iterator / lazy-sequence form (iter, iterkeys, itervalues, iteritems, keys/values/items with no, '
      'a present and a gap bound) is driven to its end by the default schedule (sequences: ascending indexes, '
      'len, descending indexes); every schedule deviating by one mutation from the full alphabet (insert or '
      'delete of every universe key, pop, clear, dropping the last container reference) at every step, and '
      'by two mutations of a reduced alphabet at every pair of steps, is executed: each step must yield a '
      'genuine entry, end the iteration or raise RuntimeError/IndexError, and the container must afterwards '
      'be sound and equal the model of the mutations alone.',
      TB, 'deviation-bounded exhaustive enumeration of iterator/mutation interleavings over a BFS state space',
      'E3', 'DESIGN.md §4 C15')

check('C05', 'exploration',
      'Every container lives in a data manager with a real persistent.PickleCache; the oracle is an uncached '
      'twin of the same class and history. Part A (all 22 families, 4 kinds, both implementations): for every '
      'reachable shape x every operation of a ~150-entry catalogue (lookups, range searches, iterators and '
      'lazy sequences with a sweep between any two steps, every mutator, set algebra with a second stored '
      'container, failing calls with unconvertible key/value, missing key, unusable bound, wrong-typed update '
      'item, bad operand, unusable node-size attribute) x ghost set at operation start in {none, all, each '
      'single node}. Part B (object-keyed families, instrumented keys, C under AddressSanitizer): a full cache '
      'sweep inside key comparison n for EVERY n the operation performs (pairs n1<n2 on the smaller space), '
      'and comparison n raising. After every execution: result / exception class / contents / shape equal the '
      'twin, no node is left STICKY, a final sweep ghostifies every unchanged node, commit + fresh reader '
      'agree with the twin.',
      TB + ' vt.minidb stands in for ZODB. In-operation sweeps are placed at key comparisons (the only place '
      'foreign code runs inside a C operation on a GIL build).',
      'exhaustive enumeration of eviction schedules (ghost sets at operation start; sweep position among the '
      'key comparisons of an operation, deviation bound 1-2) over a BFS state space, differential oracle',
      'E3+E4', 'DESIGN.md §4 C05')

check('C16', 'exploration',
      'C extension, AddressSanitizer + UBSan build with assertions, PYTHONMALLOC=malloc; keys and values are '
      'instances of tracked classes the harness never keeps a strong reference to. For every reachable shape '
      '(BFS; every state re-reached by replaying its history with FRESH objects) every operation of a '
      'catalogue (every mutator incl. replace / setdefault / pop / update / in-place operators, lookups with '
      'fresh probe objects, min/max, lazy sequences, iterators abandoned after p steps for every p, mutation '
      'under a live iterator, set algebra and | & - with a second container of equal-but-distinct objects, '
      'weighted forms, conflict merges with successor links, pickle / copy / deepcopy / __setstate__ incl. '
      'states whose k-th item fails conversion, failing calls) is followed by an exact reference census: '
      'sys.getrefcount of every tracked key / value and of every non-root node == number of container slots '
      'owning it (recursive __getstate__ walk: leaf slots, separators, child / firstbucket / next links), no '
      'unreferenced tracked object alive, everything dead once the containers are dropped; object-keyed '
      'families additionally with key comparison n raising for EVERY n; plus a data-manager variant '
      '(commit, sweep, reload, change, commit / abort / drop). Any sanitizer report aborts the worker and is '
      'a violation.',
      TB + ' Raw malloc blocks that leak without holding Python objects are not observed.',
      'explicit-state BFS over the implementation under AddressSanitizer; exact reference-count ledger after '
      'every transition; exhaustive single-fault enumeration over comparison indices', 'E1+E3',
      'DESIGN.md §4 C16')

PENDING = ['C%02d' % i for i in range(1, 20)]


def main():
    na = []
    for pid in PENDING:
        if pid not in CHECKS:
            na.append(dict(property_id=pid, reason=NOT_APPLICABLE.get(
                pid, 'check not built yet in this revision (planned, see DESIGN.md §4)')))
    m = dict(
        version=1,
        setup_cmd='./check setup',
        hooks=dict(
            guard='BTREES_VERIF',
            enable='vt/build.py compiles /repo/src/BTrees/_*BTree.c with -DBTREES_VERIF=1 into a '
                   'private directory under /var/tmp/btrees-verif (setup.py adds the same define '
                   'when the environment has BTREES_VERIF=1)',
            baseline_off_cmd='cd /repo && /venv/bin/python -m pytest -ra -q -p no:cacheprovider '
                             '--timeout=900 --continue-on-collection-errors',
            source_commits=['97f6780'],
            add_only=True,
        ),
        engines=[
            dict(name='E1', path='vt/explore.py', serves_properties=['C01', 'C02', 'C03', 'C06', 'C18'],
                 kind_free_text='explicit-state BFS; transition function = the real container'),
            dict(name='E2', path='vt/props/c09.py', serves_properties=['C09'],
                 kind_free_text='lock-step product BFS of the C and the pure-Python implementation'),
            dict(name='E3', path='vt/kkey.py', serves_properties=['C05', 'C14', 'C15', 'C16', 'C17'],
                 kind_free_text='deviation-bounded fault / schedule enumerators: n-th key comparison raises or '
                                'sweeps the cache, n-th allocation fails, mutation at iterator step p'),
            dict(name='E4', path='vt/minidb.py', serves_properties=['C04', 'C05', 'C08', 'C19'],
                 kind_free_text='in-memory storage + data manager (ZODB commit order, MVCC, conflict '
                                'resolution) driving the real persistence hooks'),
        ],
        checks=[CHECKS[k] for k in sorted(CHECKS)],
        not_applicable=na,
        notes='All checks: ./check <ID> quick|thorough (cwd /verif). Exit 2 = harness error.',
    )
    with open(os.path.join(HERE, 'MANIFEST.json'), 'w') as f:
        json.dump(m, f, indent=1)


if __name__ == '__main__':
    main()
