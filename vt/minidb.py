"""E4 - MiniDB: an in-memory storage + data manager that closes the persistence seam.

ZODB is not installed; this reproduces the part of its behaviour the properties talk about:

* Storage: oid -> [(tid, class, state pickle)], monotone tids, MVCC reads (state as of a tid).
* Connection: IPersistentDataManager (setstate / register / readCurrent / oldstate) with a real
  persistent.PickleCache; every call is logged.
* commit(): registered objects in registration order; per object an ObjectWriter-style LIFO
  stack - persistent sub-objects without an oid get one when first referenced and are pushed;
  __getstate__() is taken when an object is popped.  Serial check per stored object; on a
  mismatch _p_resolveConflict(old, committed, new) on states loaded with ONE shared
  PersistentReference factory; every readCurrent object must still be current.
  All checks happen before anything is written (atomic commit).
* abort(): invalidate every registered object.
"""
import io
import pickle
import struct

from persistent import Persistent, PickleCache


class ConflictError(Exception):
    kind = 'write'


class ReadConflictError(ConflictError):
    kind = 'read'


class UnresolvedConflict(ConflictError):
    kind = 'unresolved'

    def __init__(self, oid, exc):
        ConflictError.__init__(self, 'oid %r: %r' % (oid, exc))
        self.exc = exc
        self.reason = getattr(exc, 'reason', None)


def p64(n):
    return struct.pack('>Q', n)


def u64(b):
    return struct.unpack('>Q', b)[0]


class Storage:
    def __init__(self):
        self.data = {}          # oid -> [(tid, cls, bytes)]
        self.tid = 0
        self._oid = 0
        self.commits = []       # (tid, [oids])

    def new_oid(self):
        self._oid += 1
        return p64(self._oid)

    def load(self, oid, at=None):
        """Newest record with tid <= at (or newest)."""
        revs = self.data[oid]
        if at is None:
            return revs[-1]
        for rec in reversed(revs):
            if rec[0] <= at:
                return rec
        raise KeyError((oid, at))

    def load_serial(self, oid, serial):
        for rec in self.data[oid]:
            if rec[0] == serial:
                return rec
        raise KeyError((oid, serial))

    def current_serial(self, oid):
        revs = self.data.get(oid)
        return revs[-1][0] if revs else None

    def changed_since(self, tid):
        out = set()
        for t, oids in self.commits:
            if t > tid:
                out.update(oids)
        return out


class PersistentReference:
    """Stand-in for ZODB.ConflictResolution.PersistentReference."""

    def __init__(self, oid, cls):
        self.oid, self.cls = oid, cls

    def __eq__(self, other):
        return isinstance(other, PersistentReference) and other.oid == self.oid

    def __ne__(self, other):
        return not self.__eq__(other)

    def __hash__(self):
        return hash(self.oid)

    def __repr__(self):
        return 'PR(%d)' % u64(self.oid)


class _RefFactory:
    def __init__(self):
        self.data = {}

    def persistent_load(self, ref):
        oid, cls = ref
        r = self.data.get(oid)
        if r is None:
            r = self.data[oid] = PersistentReference(oid, cls)
        return r


def _unpickle(data, persistent_load):
    u = pickle.Unpickler(io.BytesIO(data))
    u.persistent_load = persistent_load
    return u.load()


class Connection:
    def __init__(self, storage, cache_size=100000, clsmap=None):
        self.storage = storage
        self.clsmap = clsmap        # class -> class actually instantiated (cross-implementation reads)
        self.cache = PickleCache(self, cache_size)
        self.registered = []
        self.read_current = {}
        self.log = []
        self.snapshot = storage.tid
        self.last_stored = []       # oids written by the last commit
        self.last_resolved = []
        self.sweep_hook = None

    # -- transaction boundary ------------------------------------------------
    def begin(self):
        """Start a new transaction: see everything committed so far."""
        assert not self.registered
        changed = self.storage.changed_since(self.snapshot)
        for oid in changed:
            obj = self.cache.get(oid)
            if obj is not None:
                obj._p_invalidate()
        self.snapshot = self.storage.tid
        self.read_current = {}
        self.log = []

    # -- IPersistentDataManager ---------------------------------------------
    def setstate(self, obj):
        oid = obj._p_oid
        tid, cls, data = self.storage.load(oid, self.snapshot)
        self.log.append(('setstate', oid))
        state = _unpickle(data, self._persistent_load)
        obj.__setstate__(state)
        obj._p_serial = p64(tid)

    def register(self, obj):
        self.log.append(('register', obj._p_oid))
        if not any(o is obj for o in self.registered):
            self.registered.append(obj)

    def readCurrent(self, obj):
        self.log.append(('readCurrent', obj._p_oid))
        if obj._p_oid is not None and obj._p_oid not in self.read_current:
            self.read_current[obj._p_oid] = obj._p_serial

    def oldstate(self, obj, tid):
        t, cls, data = self.storage.load_serial(obj._p_oid, u64(tid))
        return _unpickle(data, self._persistent_load)

    # -- object access ---------------------------------------------------------
    def _persistent_load(self, ref):
        oid, cls = ref
        return self.get(oid, cls)

    def get(self, oid, cls=None):
        obj = self.cache.get(oid)
        if obj is not None:
            return obj
        if cls is None:
            cls = self.storage.load(oid, self.snapshot)[1]
        if self.clsmap is not None:
            cls = self.clsmap(cls)
        obj = cls.__new__(cls)
        self.cache.new_ghost(oid, obj)
        return obj

    def add(self, obj):
        """Give a new object an oid and schedule it for the next commit."""
        assert obj._p_oid is None
        obj._p_jar = self
        obj._p_oid = self.storage.new_oid()
        self._added.append(obj) if hasattr(self, '_added') else setattr(self, '_added', [obj])
        return obj._p_oid

    # -- commit / abort ----------------------------------------------------------
    def _serialize(self, obj, stack, new_objects):
        def persistent_id(o):
            if not isinstance(o, Persistent):
                if isinstance(o, PersistentReference):
                    return (o.oid, o.cls)
                return None
            if o._p_oid is None:
                o._p_jar = self
                o._p_oid = self.storage.new_oid()
                new_objects.append(o)
                stack.append(o)
            elif o._p_jar is not self:
                raise ValueError('object from another connection')
            return (o._p_oid, type(o))
        f = io.BytesIO()
        p = pickle.Pickler(f, 3)
        p.persistent_id = persistent_id
        p.dump(obj.__getstate__())
        return f.getvalue()

    def _dump_state(self, state):
        def persistent_id(o):
            if isinstance(o, PersistentReference):
                return (o.oid, o.cls)
            if isinstance(o, Persistent):
                raise ValueError('live persistent object in a resolved state')
            return None
        f = io.BytesIO()
        p = pickle.Pickler(f, 3)
        p.persistent_id = persistent_id
        p.dump(state)
        return f.getvalue()

    def commit(self):
        """Returns the list of oids written.  Raises ConflictError (nothing written)."""
        st = self.storage
        added = getattr(self, '_added', [])
        self._added = []
        todo = list(added) + [o for o in self.registered if not any(o is a for a in added)]
        records = []            # (obj, oid, cls, data, resolved)
        new_objects = list(added)
        seen = set()
        try:
            for root in todo:
                stack = [root]
                while stack:
                    obj = stack.pop()
                    if id(obj) in seen:
                        continue
                    seen.add(id(obj))
                    if obj._p_oid is None:
                        obj._p_jar = self
                        obj._p_oid = st.new_oid()
                        new_objects.append(obj)
                    data = self._serialize(obj, stack, new_objects)
                    records.append([obj, obj._p_oid, type(obj), data, False])
            # conflict detection
            for rec in records:
                obj, oid, cls, data, _ = rec
                cur = st.current_serial(oid)
                if cur is None:
                    continue
                have = u64(obj._p_serial) if obj._p_serial and obj._p_serial != b'\0' * 8 else 0
                if cur != have:
                    rec[3] = self._resolve(oid, cls, have, cur, data)
                    rec[4] = True
            written = {r[1] for r in records}
            for oid, serial in self.read_current.items():
                if oid in written:
                    continue
                cur = st.current_serial(oid)
                have = u64(serial) if serial and serial != b'\0' * 8 else 0
                if cur is not None and cur != have:
                    raise ReadConflictError('oid %d changed since it was read' % u64(oid))
        except BaseException:
            # failed commit == abort; objects that got an oid in this attempt stay
            # unsaved new objects from the storage's point of view
            self._abort_objects(new_objects)
            raise
        st.tid += 1
        tid = st.tid
        for obj, oid, cls, data, resolved in records:
            st.data.setdefault(oid, []).append((tid, cls, data))
        st.commits.append((tid, [r[1] for r in records]))
        for obj, oid, cls, data, resolved in records:
            if any(obj is n for n in new_objects):
                self.cache[oid] = obj
            obj._p_serial = p64(tid)
            obj._p_changed = False
            if resolved:
                obj._p_invalidate()
        self.last_stored = [r[1] for r in records]
        self.last_resolved = [r[1] for r in records if r[4]]
        self.last_new = [o._p_oid for o in new_objects]
        self.registered = []
        self.read_current = {}
        self.snapshot = tid
        # other objects changed by other connections in between stay as loaded until begin()
        return self.last_stored

    def _resolve(self, oid, cls, old_serial, committed_serial, newdata):
        st = self.storage
        fac = _RefFactory()
        try:
            new = _unpickle(newdata, fac.persistent_load)
            old = _unpickle(st.load_serial(oid, old_serial)[2], fac.persistent_load)
            committed = _unpickle(st.load_serial(oid, committed_serial)[2], fac.persistent_load)
            inst = cls.__new__(cls)
            resolve = getattr(inst, '_p_resolveConflict', None)
            if resolve is None:
                raise ConflictError('no _p_resolveConflict on %s' % cls.__name__)
            resolved = resolve(old, committed, new)
            return self._dump_state(resolved)
        except ConflictError:
            raise
        except Exception as e:      # noqa - ZODB turns every failure into a ConflictError
            raise UnresolvedConflict(oid, e)

    def _abort_objects(self, new_objects):
        for obj in self.registered:
            if obj._p_oid is not None and self.storage.current_serial(obj._p_oid) is not None:
                obj._p_invalidate()
        for obj in new_objects:
            # never stored: forget the oid so that a later commit treats it as new again
            if self.storage.current_serial(obj._p_oid) is None:
                try:
                    del obj._p_oid
                    del obj._p_jar
                except Exception:       # noqa
                    pass
        self.registered = []
        self.read_current = {}

    def abort(self):
        added = getattr(self, '_added', [])
        self._added = []
        self._abort_objects(list(added))

    # -- cache control ----------------------------------------------------------
    def sweep(self):
        """Ghostify every object that lets itself be ghostified."""
        n = 0
        for oid, obj in list(self.cache.items()):
            if obj._p_state == 0:       # UPTODATE
                obj._p_deactivate()
                if obj._p_state == -1:
                    n += 1
        return n

    def objects(self):
        return [obj for oid, obj in self.cache.items()]


def open_tree(storage, root_oid, clsmap=None):
    """Fresh connection (empty cache) and its view of the root object."""
    conn = Connection(storage, clsmap=clsmap)
    return conn, conn.get(root_oid)


def impl_map(to_py):
    """Class map that reads every BTrees record with the pure-Python (or the C) classes."""
    import importlib

    def m(cls):
        mod = importlib.import_module(cls.__module__)
        name = cls.__name__[:-2] if cls.__name__.endswith('Py') else cls.__name__
        return getattr(mod, name + ('Py' if to_py else ''))
    return m


def selftest():
    """Round trip of a 3-level tree in both implementations; determinism of records."""
    from BTrees.OOBTree import OOBTree, OOBTreePy
    from BTrees.check import check
    out = {}
    for cls in (OOBTree, OOBTreePy):
        saved = cls.max_leaf_size, cls.max_internal_size
        cls.max_leaf_size, cls.max_internal_size = 2, 2
        try:
            recs = []
            for rep in range(2):
                st = Storage()
                c = Connection(st)
                t = cls()
                c.add(t)
                for k in range(9):
                    t[k] = str(k)
                c.commit()
                del t[4]
                t[3] = 'x'
                c.commit()
                c2, t2 = open_tree(st, t._p_oid)
                assert list(t2.items()) == list(t.items()), (list(t2.items()), list(t.items()))
                t2._check()
                check(t2)
                # abort restores
                t[100] = 'y'
                del t[0]
                c.abort()
                assert list(t.items()) == list(t2.items())
                c.sweep()
                assert list(t.items()) == list(t2.items())
                recs.append(sorted((oid, [(tid, cl.__name__, d) for tid, cl, d in revs])
                                   for oid, revs in st.data.items()))
            assert recs[0] == recs[1], 'MiniDB is not deterministic'
            out[cls.__name__] = len(recs[0])
        finally:
            cls.max_leaf_size, cls.max_internal_size = saved
    return out
