"""./check <ID> quick|thorough | replay <path> | setup | clean | selftest"""
import collections
import importlib
import json
import os
import sys
import time

from . import build, pool

HERE = os.path.dirname(os.path.dirname(os.path.abspath(__file__)))
PROPS = ['C%02d' % i for i in range(1, 20)]
NPROC = int(os.environ.get('VERIF_NPROC', '16'))


def seed():
    try:
        return int(os.environ.get('VERIF_SEED', '0'))
    except ValueError:
        return 0


# --------------------------------------------------------------------------
# known findings

def load_findings():
    from . import findings
    return findings.load()


def match_finding(findings_list, prop, sig):
    from . import findings
    return findings.match(prop, sig, findings_list)


# --------------------------------------------------------------------------

def _jsonable(x):
    if isinstance(x, dict):
        return {str(k): _jsonable(v) for k, v in x.items()}
    if isinstance(x, (list, tuple)):
        return [_jsonable(v) for v in x]
    if isinstance(x, (str, int, bool)) or x is None:
        return x
    if isinstance(x, float):
        if x != x or x in (float('inf'), float('-inf')):
            return repr(x)
        return x
    return repr(x)


def write_replay(prop, n, v):
    d = os.path.join(HERE, 'replays', prop)
    if os.environ.get('VERIF_SCRATCH'):
        d = os.path.join('/tmp/seedrun', 'replays-' + os.environ['VERIF_SCRATCH'], prop)
    os.makedirs(d, exist_ok=True)
    p = os.path.join(d, '%d.json' % n)
    doc = {
        'property': prop,
        'module': v.get('module'),
        'sig': _jsonable(v.get('sig')),
        'detail': v.get('detail'),
        'case': _jsonable(v.get('case')),
        'case_repr': repr(v.get('case')),
    }
    with open(p, 'w') as f:
        json.dump(doc, f, indent=1)
    return p


def merge(total, res):
    for k, v in res.items():
        if k in ('violations', 'sample', 'samples'):
            continue
        if isinstance(v, bool):
            total[k] = total.get(k, True) and v
        elif isinstance(v, (int, float)):
            total[k] = total.get(k, 0) + v
        elif isinstance(v, dict):
            d = total.setdefault(k, collections.Counter())
            for kk, vv in v.items():
                d[kk] += vv
        elif isinstance(v, (list, set, tuple)) and k.endswith('_set'):
            total.setdefault(k, set()).update(v)
        elif isinstance(v, str):
            total.setdefault(k, v)


def run_check(prop, tier):
    t0 = time.time()
    mod = importlib.import_module('vt.props.' + prop.lower())
    findings = load_findings()
    jobs = mod.jobs(tier)
    for i, j in enumerate(jobs):
        j.setdefault('mod', mod.__name__)
        j['id'] = i
    by_flavour = collections.defaultdict(list)
    for j in jobs:
        by_flavour[j.get('flavour', 'plain')].append(j)
    total = {}
    violations = []
    samples = []
    per_group = collections.defaultdict(lambda: collections.Counter())
    harness_errors = []
    njobs = 0
    job_walls = []
    for flavour, js in by_flavour.items():
        try:
            env = build.worker_env(flavour)
        except build.BuildError as e:
            print('HARNESS-ERROR: build failed for flavour %s:\n%s' % (flavour, e))
            return 2
        js.sort(key=lambda j: -j.get('weight', 1))
        for j, r in pool.run_jobs(js, env, NPROC):
            njobs += 1
            grp = j.get('group', '')
            if isinstance(r, pool.WorkerDied):
                case = {'job': {k: j[k] for k in ('mod', 'fn', 'args') if k in j},
                        'flavour': j.get('flavour', 'plain'), 'running': r.case}
                violations.append({
                    'prop': prop, 'module': j['mod'],
                    'sig': dict(site='worker', cls=r.kind, fn=j['fn'],
                                **{k: v for k, v in j.get('args', {}).items()
                                   if k in ('fam', 'kind', 'impl')}),
                    'case': case,
                    'detail': 'worker %s (rc=%s) while running %s\n%s'
                              % (r.kind, r.rc, r.case, r.stderr[-3000:])})
                continue
            if not r.get('ok'):
                # an exception that escaped from INSIDE the implementation (innermost frame in the
                # BTrees package) or a SystemError from the extension is a finding about the
                # implementation, not a harness error
                trace = r.get('trace') or ''
                files = [l for l in trace.splitlines() if l.lstrip().startswith('File "')]
                inner = files[-1] if files else ''
                if '/BTrees/' in inner or (r.get('error') or '').startswith('SystemError'):
                    violations.append({
                        'prop': prop, 'module': j['mod'],
                        'sig': dict(site='job-exception', cls=(r.get('error') or '').split(':')[0],
                                    fn=j['fn'], **{k: v for k, v in j.get('args', {}).items()
                                                   if k in ('fam', 'kind', 'impl')}),
                        'case': {'job': {k: j[k] for k in ('mod', 'fn', 'args') if k in j},
                                 'flavour': j.get('flavour', 'plain')},
                        'detail': 'the implementation raised out of a harness step that never fails '
                                  'on a correct tree: %s\n%s' % (r.get('error'), trace[-1500:])})
                    continue
                harness_errors.append((j, r))
                continue
            res = r['result']
            job_walls.append((round(r.get('wall', 0), 1), j['fn'], repr(j.get('args'))[:200]))
            merge(total, res)
            for v in res.get('violations', ()):
                v = dict(v)
                v.setdefault('module', j['mod'])
                violations.append(v)
            if res.get('sample') is not None and len(samples) < 6:
                samples.append(res['sample'])
            for s in res.get('samples', ()):
                if len(samples) < 6:
                    samples.append(s)
            if grp:
                for k in ('states', 'transitions', 'evaluations'):
                    if k in res:
                        per_group[grp][k] += res[k]
    if harness_errors:
        for j, r in harness_errors[:5]:
            print('HARNESS-ERROR: job %s %s: %s\n%s' % (j['fn'], j.get('args'), r.get('error'),
                                                       r.get('trace', '')))
        return 2
    # triage
    known = collections.OrderedDict()
    fresh = []
    for v in violations:
        f = match_finding(findings, prop, v.get('sig', {}))
        if f is not None:
            known.setdefault(f['id'], [f, 0])[1] += 1
        else:
            fresh.append(v)
    # vacuity guards (only meaningful when nothing failed: a failing job stops early)
    guards = total.get('guards', {})
    missing = [g for g in getattr(mod, 'required_guards', lambda tier: [])(tier)
               if not guards.get(g)]
    if missing and not fresh:
        print('HARNESS-ERROR: vacuity guard(s) never triggered: %s' % ', '.join(missing))
        return 2
    for fid, (f, n) in known.items():
        print('KNOWN-FINDING: property=%s %s [%s] (%d cases)' % (prop, f['what'], fid, n))
    # replays: one per distinct signature, at most 25
    import shutil
    if not os.environ.get('VERIF_SCRATCH'):
        shutil.rmtree(os.path.join(HERE, 'replays', prop), ignore_errors=True)
    seen_sig = set()
    nrep = 0
    for v in fresh:
        key = json.dumps(_jsonable(v.get('sig')), sort_keys=True)
        if key in seen_sig or nrep >= 25:
            continue
        seen_sig.add(key)
        p = write_replay(prop, nrep, v)
        nrep += 1
        print('VIOLATION property=%s replay=%s' % (prop, p))
        print('    %s :: %s' % (json.dumps(_jsonable(v.get('sig')), sort_keys=True),
                                (v.get('detail') or '')[:400].replace('\n', '\n    ')))
    if fresh:
        print('%d violating case(s), %d distinct signature(s)' % (len(fresh), len(seen_sig)))
    wall = time.time() - t0
    job_walls.sort(reverse=True)
    total['_slowest'] = job_walls[:8]
    total['_cpu_s'] = round(sum(w for w, _, _ in job_walls), 1)
    if os.environ.get('VERIF_TIMING'):
        for w in job_walls[:25]:
            print('TIMING', w)
        print('TIMING total cpu', total['_cpu_s'])
    write_evidence(prop, tier, mod, total, samples, per_group, len(fresh),
                   {k: n for k, (f, n) in known.items()}, wall, njobs)
    return 1 if fresh else 0


def write_evidence(prop, tier, mod, total, samples, per_group, nviol, known, wall, njobs):
    level = mod.LEVEL
    cov = {}
    for k in ('states', 'transitions', 'evaluations'):
        if k in total:
            cov[k] = int(total[k])
    if 'compared' in total:
        cov['traces_validated_against_impl'] = int(total['compared'])
    if 'distinct' in total:
        cov['distinct_nontrivial'] = int(total['distinct'])
    cov['rule'] = getattr(mod, 'RULE', '')
    cov['samples'] = [_jsonable(s) for s in samples] or [{'note': 'no sample recorded'}]
    cov['exhaustive'] = bool(total.get('exhaustive', True))
    cov['bounds'] = mod.bounds(tier) if hasattr(mod, 'bounds') else ''
    cov['jobs'] = njobs
    if 'guards' in total:
        cov['structural_events_reached'] = {k: int(v) for k, v in sorted(total['guards'].items())}
    if 'outcomes' in total:
        oc = total['outcomes']
        cov['distinct_observed_outcomes'] = len(oc)
        cov['outcome_histogram'] = {str(k): int(v) for k, v in
                                    sorted(oc.items(), key=lambda kv: str(kv[0]))[:120]}
    for k, v in total.items():
        if k.startswith('n_'):
            cov[k] = int(v)
    if '_slowest' in total:
        cov['slowest_jobs'] = [list(x) for x in total['_slowest']]
        cov['cpu_s'] = total['_cpu_s']
    if per_group:
        cov['per_configuration'] = {g: dict(c) for g, c in sorted(per_group.items())}
    cov['known_findings_hit'] = known
    cov['trusted_base'] = getattr(mod, 'TRUSTED', [])
    if level == 'model_checking':
        cov.setdefault('states', 0)
        cov.setdefault('transitions', 0)
        cov.setdefault('traces_validated_against_impl', 0)
    else:
        cov.setdefault('evaluations', cov.get('transitions', 0))
        cov.setdefault('distinct_nontrivial', cov.get('states', 0))
    ev = {
        'property_id': prop,
        'tier': tier,
        'seed': seed(),
        'level': level,
        'coverage': cov,
        'assumptions': getattr(mod, 'ASSUMPTIONS', []),
        'wall_s': round(wall, 2),
        'violations': nviol,
    }
    d = os.path.join(HERE, 'evidence')
    if os.environ.get('VERIF_SCRATCH'):     # development run against a scratch copy: not evidence
        d = os.path.join('/tmp/seedrun', 'evidence-' + os.environ['VERIF_SCRATCH'])
    os.makedirs(d, exist_ok=True)
    with open(os.path.join(d, prop + '.json'), 'w') as f:
        json.dump(ev, f, indent=1, sort_keys=True)


def run_replay(path):
    import ast
    with open(path) as f:
        doc = json.load(f)
    case = ast.literal_eval(doc['case_repr'])
    modname = doc.get('module') or ('vt.props.' + doc['property'].lower())
    flavour = 'plain'
    if isinstance(case, dict):
        flavour = case.get('flavour', 'plain')
    env = build.worker_env(flavour)
    outs = []
    whole_job = isinstance(case, dict) and 'job' in case
    for i in range(2):
        if whole_job:
            # a case recorded because the worker died (sanitizer abort, segfault, hang) or the
            # implementation raised out of the job: re-run that job as it was
            job = dict(case['job'], id=i)
        else:
            job = {'mod': modname, 'fn': 'replay', 'args': {'case': case}, 'id': i}
        for j, r in pool.run_jobs([job], env, 1):
            if isinstance(r, pool.WorkerDied):
                outs.append(('died', r.kind, r.rc))
                print('worker %s rc=%s while running %s\n%s' % (r.kind, r.rc, r.case, r.stderr[-3000:]))
            elif not r.get('ok'):
                if whole_job:
                    outs.append(('died', 'exception', (r.get('error') or '').split(':')[0]))
                    print('job raised %s\n%s' % (r.get('error'), (r.get('trace') or '')[-2000:]))
                    continue
                print('HARNESS-ERROR: %s\n%s' % (r.get('error'), r.get('trace')))
                return 2
            else:
                vs = r['result'].get('violations', [])
                outs.append(tuple(sorted((json.dumps(_jsonable(v.get('sig')), sort_keys=True),
                                          v.get('detail')) for v in vs)))
    if outs[0] != outs[1]:
        print('HARNESS-ERROR: replay is not deterministic:\n%r\n%r' % (outs[0], outs[1]))
        return 2
    if not outs[0]:
        print('replay: no violation reproduced')
        return 0
    if outs[0][0] == 'died':
        print('VIOLATION property=%s replay=%s' % (doc['property'], path))
        return 1
    for sig, detail in outs[0]:
        print('VIOLATION property=%s replay=%s' % (doc['property'], path))
        print('   ', sig, '::', (detail or '')[:1000])
    return 1


def main(argv):
    if len(argv) < 1:
        print(__doc__)
        return 2
    cmd = argv[0]
    if cmd == 'setup':
        build.build('plain')
        build.build('asan')
        from . import selfcheck
        return selfcheck.main()
    if cmd == 'clean':
        build.clean()
        return 0
    if cmd == 'replay':
        return run_replay(argv[1])
    if cmd == 'selftest':
        from . import selftest
        return selftest.main(argv[1:])
    if cmd == 'triage':
        # ./check triage <prop> [tier] [substring filter on job args]: grouped fresh violations
        prop = argv[1].upper()
        tier = argv[2] if len(argv) > 2 else 'quick'
        filt = argv[3] if len(argv) > 3 else ''
        mod = importlib.import_module('vt.props.' + prop.lower())
        from . import findings as FM
        jobs = [j for j in mod.jobs(tier) if filt in repr(j.get('args'))]
        for i, j in enumerate(jobs):
            j.setdefault('mod', mod.__name__)
            j['id'] = i
        byf = collections.defaultdict(list)
        for j in jobs:
            byf[j.get('flavour', 'plain')].append(j)
        groups = collections.OrderedDict()
        nk = 0
        for fl, js in byf.items():
            env = build.worker_env(fl)
            for j, r in pool.run_jobs(js, env, NPROC):
                if isinstance(r, pool.WorkerDied):
                    print('DIED', r.kind, r.rc, j.get('args'), r.case, r.stderr[-1500:])
                    continue
                if not r.get('ok'):
                    print('ERROR', j.get('args'), r.get('error'), r.get('trace'))
                    continue
                for v in r['result'].get('violations', []):
                    if FM.match(prop, v.get('sig', {})) is not None:
                        nk += 1
                        continue
                    sig = dict(v.get('sig', {}))
                    extra = (sig.pop('argcat', ''), sig.pop('fam', ''), sig.pop('kind', ''))
                    for kk in ('variant', 'proto'):
                        sig.pop(kk, None)
                    k = json.dumps(_jsonable(sig), sort_keys=True)
                    gr = groups.setdefault(k, [0, set(), set(), set(), v])
                    gr[0] += 1
                    gr[1].add(extra[0]); gr[2].add(extra[1]); gr[3].add(extra[2])
        print('%d known-finding cases; %d fresh groups' % (nk, len(groups)))
        for k, (n, acs, fams, kinds, v) in groups.items():
            print('%6d %s\n        argcats=%s fams=%s kinds=%s\n        e.g. %s | %s' % (
                n, k, sorted(acs), ' '.join(sorted(fams)), sorted(kinds),
                (v.get('detail') or '')[:300],
                repr(v.get('case', {}).get('history'))[:200]))
        return 0
    if cmd == 'dev':
        # ./check dev <prop> "<python dict of job args>" [flavour] : run one job, print result
        import ast
        args = eval(argv[2])
        fn = 'job'
        if '__fn' in args:
            fn = args.pop('__fn')
        env = build.worker_env(argv[3] if len(argv) > 3 else 'plain')
        job = {'mod': 'vt.props.' + argv[1].lower(), 'fn': fn, 'args': args, 'id': 0}
        t0 = time.time()
        for j, r in pool.run_jobs([job], env, 1):
            if isinstance(r, pool.WorkerDied):
                print('DIED', r.kind, r.rc, r.case, r.stderr[-3000:])
                return 1
            if not r.get('ok'):
                print(r.get('error'), r.get('trace'))
                return 2
            res = r['result']
            vs = res.pop('violations', [])
            res.pop('outcomes', None)
            print(json.dumps(_jsonable(res), indent=1)[:3000])
            print('%d violations, %.1fs' % (len(vs), time.time() - t0))
            from . import findings as FM
                
            nk = 0
            fresh = []
            for v in vs:
                if FM.match(argv[1].upper(), v.get('sig', {})) is not None:
                    nk += 1
                else:
                    fresh.append(v)
            print('%d known-finding cases, %d fresh' % (nk, len(fresh)))
            vs = fresh
            groups = collections.OrderedDict()
            for v in vs:
                sig = dict(v.get('sig', {}))
                ac = sig.pop('argcat', '')
                for kk in ('fam', 'kind', 'variant', 'proto'):
                    sig.pop(kk, None)
                k = json.dumps(_jsonable(sig), sort_keys=True)
                gr = groups.setdefault(k, [0, set(), v])
                gr[0] += 1
                gr[1].add(ac)
            for k, (n, acs, v) in list(groups.items())[:60]:
                print('%5d %s argcats=%s\n        e.g. %s | %s' % (
                    n, k, sorted(acs), (v.get('detail') or '')[:260],
                    repr(v.get('case', {}).get('history'))[:160]))
        return 0
    if cmd.upper() in PROPS:
        tier = argv[1] if len(argv) > 1 else os.environ.get('VERIF_TIER', 'quick')
        return run_check(cmd.upper(), tier)
    print(__doc__)
    return 2


if __name__ == '__main__':
    sys.exit(main(sys.argv[1:]))
