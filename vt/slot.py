"""Shared-memory 'current case' slot: the worker records what it is about to execute so
that the parent can report it when the worker dies (sanitizer abort, segfault) or hangs.

Layout: 8-byte heartbeat counter, 4-byte length, payload (repr of the case).
"""
import mmap
import os
import struct

SIZE = 1 << 16
_mm = None
_beat = 0


def attach(path):
    global _mm
    fd = os.open(path, os.O_RDWR)
    _mm = mmap.mmap(fd, SIZE)
    os.close(fd)


def create(path):
    with open(path, 'wb') as f:
        f.write(b'\0' * SIZE)


def set(case):
    global _beat
    if _mm is None:
        return
    _beat += 1
    b = repr(case).encode('utf-8', 'replace')[:SIZE - 16]
    _mm[0:12] = struct.pack('<QI', _beat, len(b))
    _mm[12:12 + len(b)] = b


def beat():
    global _beat
    if _mm is None:
        return
    _beat += 1
    _mm[0:8] = struct.pack('<Q', _beat)


def read(path):
    with open(path, 'rb') as f:
        data = f.read(SIZE)
    beat, n = struct.unpack('<QI', data[:12])
    return beat, data[12:12 + n].decode('utf-8', 'replace')
