"""Shared helpers for checks that run monitors over E1 shape spaces."""
import itertools

from . import fam as F
from . import ops as O
from .explore import Explorer


def slim_alphabet(ctx, keys, vals, extra=True):
    """Smallest alphabet that reaches every shape: one insert and one delete per key
    (plus clear / pop-min so that those code paths are transitions as well)."""
    ops = []
    if ctx.is_map:
        for i, k in enumerate(keys):
            ops.append(('setitem', k, vals[i % 2]))
        for k in keys:
            ops.append(('delitem', k))
        if extra:
            ops.append(('popitem',))
            ops.append(('clear',))
    else:
        for k in keys:
            ops.append(('add', k))
        for k in keys:
            ops.append(('remove', k))
        if extra:
            ops.append(('pop',))
            ops.append(('clear',))
    return ops


def full_alphabet(ctx, keys, grid, vals):
    """Every mutating public entry point once per key (no subset enumeration)."""
    ops = slim_alphabet(ctx, keys, vals)
    pairs = [(k, vals[i % 2]) for i, k in enumerate(keys)]
    gap = [g for g in grid if g not in keys][:1]
    if ctx.is_map:
        for i, k in enumerate(keys):
            v = vals[i % 2]
            if ctx.kind == 'BTree':
                ops.append(('insert', k, v))
            ops.append(('setdefault', k, v))
            ops.append(('pop', k))
            ops.append(('pop', k, 'D'))
        for g in gap:
            ops.append(('delitem', g))
            ops.append(('pop', g, 'D'))
        # refused writes (must raise TypeError and leave a sound, unchanged container)
        ops.append(('badkey', 'setitem', vals[0]))
        ops.append(('badkey', 'update', vals[0]))
        if O.bad_value(ctx.fam) is not None:
            for k in (keys[0], keys[-1]) + tuple(gap):
                ops.append(('badvalue', 'setitem', k))
            ops.append(('badvalue', 'update', keys[len(keys) // 2]))
        ops.append(('update', 'dict', tuple(pairs)))
        ops.append(('update', 'pairs', tuple(reversed(pairs))))
        ops.append(('update', 'same', tuple(pairs[::2])))
        ops.append(('update', 'pairs', tuple(pairs[1::2])))
    else:
        for k in keys:
            ops.append(('insert', k))
            ops.append(('discard', k))
        for g in gap:
            ops.append(('remove', g))
            ops.append(('discard', g))
        ops.append(('badkey', 'add'))
        ops.append(('badkey', 'update'))
        ops.append(('update', 'list', tuple(reversed(keys))))
        ops.append(('update', 'same', tuple(keys[::2])))
        for ip in ('ior', 'iand', 'isub', 'ixor'):
            ops.append((ip, 'list', tuple(keys[::2])))
            ops.append((ip, 'same', tuple(keys[1::2])))
            ops.append((ip, 'list', tuple(keys[:1])))
        # plain iterables are neither sorted nor duplicate-free: descending order (the rebuild order
        # of `&=` shows in the shape), a key twice (as many hits as a two-key set has members)
        rev = tuple(reversed(keys))
        for ip in ('ior', 'iand', 'isub', 'ixor'):
            ops.append((ip, 'list', rev))
            ops.append((ip, 'list', rev[1:] + rev[1:2]))
            ops.append((ip, 'list', (keys[0], keys[0])))
        ops.append(('update', 'list', rev[1:] + rev[1:2]))
    return ops


def build_prefix(ctx, keys, vals, order):
    idx = list(range(len(keys)))
    if order == 'desc':
        idx.reverse()
    elif order == 'mid':        # middle-out: splits happen on both flanks
        idx.sort(key=lambda i: (abs(i - len(keys) // 2), i))
    elif order != 'asc':
        raise ValueError(order)
    if ctx.is_map:
        return tuple(('setitem', keys[i], vals[i % 2]) for i in idx)
    return tuple(('add', keys[i]) for i in idx)


def delete_alphabet(ctx, keys):
    if ctx.is_map:
        return [('delitem', k) for k in keys]
    return [('remove', k) for k in keys]


def explorer(fam, kind, impl, sizes, n, variant, prop, alphabet='slim', check_ops=False,
             max_states=None, subclass=False, thin=None, big=None):
    ctx = O.Ctx(fam, kind, impl, subclass_sizes=sizes if subclass else None)
    keys, grid = F.universe(fam, n, variant)
    vals = F.values(fam)
    prefix = ()
    max_depth = None
    if big:
        # 'big state': scripted build (order `big`) of two thirds of an n-key universe at the node sizes
        # given - `sizes` None = the family's DEFAULT sizes -, then every single operation of the slim
        # alphabet (real inserts of the absent third, replacements, deletions, failing deletions) and all
        # monitors in every successor; depth 1 only (2^n subsets are out of reach for n > 13).
        present = [k for i, k in enumerate(keys) if i % 3 != 1]
        prefix = build_prefix(ctx, present, vals, big)
        alpha = slim_alphabet(ctx, keys, vals)
        max_depth = 1
    elif thin:
        # 'thinning space': scripted build of all n keys in the given order, then BFS over
        # deletions only (every subset of keys removed, in every order that changes the shape)
        prefix = build_prefix(ctx, keys, vals, thin)
        alpha = delete_alphabet(ctx, keys)
    elif alphabet == 'slim':
        alpha = slim_alphabet(ctx, keys, vals)
    else:
        alpha = full_alphabet(ctx, keys, grid, vals)
    if sizes and not subclass:
        F.set_sizes(fam, *sizes)
    elif big:
        F.reset_sizes(fam)
    ex = Explorer(ctx, alpha, sizes=sizes, prop=prop, check_ops=check_ops,
                  max_states=max_states, prefix=prefix, max_depth=max_depth,
                  base_case=dict(n=n, variant=variant, thin=thin, big=big))
    ex.keys, ex.grid, ex.vals = keys, grid, vals
    return ex


def result(ex, extra_eval=0, **more):
    g = dict(ex.guards)
    d = dict(states=ex.states, transitions=ex.transitions,
             compared=ex.compared + extra_eval,
             evaluations=ex.transitions + extra_eval, distinct=ex.states,
             exhaustive=ex.exhaustive, guards=g,
             outcomes={'%s/%s/%s' % k if isinstance(k, tuple) else str(k): v
                       for k, v in ex.outcomes.items()},
             violations=ex.violations + ex.known, sample=ex.sample)
    d.update(more)
    return d


def replay_state(case):
    """Rebuild the container of a recorded case (history replay). Returns (ctx, t, model)."""
    from .models import model_for
    ctx = O.Ctx(case['fam'], case['kind'], case['impl'])
    if case.get('sizes'):
        F.set_sizes(case['fam'], *case['sizes'])
    t = ctx.new()
    m = model_for(ctx.kind)
    for op in case['history']:
        op = _tup(op)
        O.fast_apply(ctx, t, op)
        O.apply_model(m, op)
    return ctx, t, m


def _tup(x):
    if isinstance(x, list):
        return tuple(_tup(i) for i in x)
    if isinstance(x, tuple):
        return tuple(_tup(i) for i in x)
    return x


def tree_configs(tier, deep_sizes_quick=((2, 2), (2, 3), (3, 2)), n_c=6, n_py=5, n_other=5,
                 n_shallow=4, thorough_n_c=7, thorough_n_py=6, variants=True):
    """Standard (fam, kind, impl, sizes, n, variant, weight) matrix for tree kinds."""
    out = []
    deep = F.COVER if tier == 'quick' else F.FAMILIES
    for fam in F.FAMILIES:
        for impl in F.IMPLS:
            w = 10 if impl == 'py' else 1
            for kind in F.TREE_KINDS:
                if fam in deep:
                    if tier == 'quick':
                        out.append((fam, kind, impl, (2, 2), n_c if impl == 'c' else n_py,
                                    'centred', 40 * w))
                        for sz in deep_sizes_quick[1:]:
                            out.append((fam, kind, impl, sz, n_other, 'centred', 3 * w))
                        if variants:
                            out.append((fam, kind, impl, (2, 2), n_other, 'extreme', 5 * w))
                            if fam[0] == 'O':
                                out.append((fam, kind, impl, (2, 2), n_other, 'none', 5 * w))
                    else:
                        out.append((fam, kind, impl, (2, 2),
                                    thorough_n_c if impl == 'c' else thorough_n_py,
                                    'centred', 400 * w))
                        for sz in ((2, 3), (3, 2), (3, 3), (2, 4), (4, 2), (4, 4), (3, 4), (4, 3)):
                            out.append((fam, kind, impl, sz, 6, 'centred', 10 * w))
                        if variants:
                            out.append((fam, kind, impl, (2, 2), 6, 'extreme', 40 * w))
                            if fam[0] == 'O':
                                out.append((fam, kind, impl, (2, 2), 6, 'none', 40 * w))
                else:
                    out.append((fam, kind, impl, (2, 2), n_shallow, 'centred', w))
                    if variants:
                        out.append((fam, kind, impl, (2, 2), n_shallow, 'extreme', w))
    return out


def leaf_configs(tier, n_deep=5, n_shallow=4):
    out = []
    deep = F.COVER if tier == 'quick' else F.FAMILIES
    for fam in F.FAMILIES:
        for impl in F.IMPLS:
            w = 10 if impl == 'py' else 1
            for kind in ('Bucket', 'Set'):
                for var in F.variants(fam):
                    out.append((fam, kind, impl, None, n_deep if fam in deep else n_shallow,
                                var, w))
    return out


# --------------------------------------------------------------------------
# wide nodes (session 5): the standard spaces use node sizes 2..4, so no node ever holds more than
# 7 entries and a slip in the binary searches (BUCKET_SEARCH / BTREE_SEARCH, bisect in _base.py), in
# a split midpoint or in a memmove length that needs a *wide* node to show is out of their reach.
# These configurations put 8..9 children under one interior node (leaf size 2, interior size 8),
# up to 8 keys into one leaf of a two-level tree (8/2), and both at once (6/6).
WIDE_FAMS_QUICK = {'c': ('OO', 'LQ', 'fs'), 'py': ('OO', 'IF')}


def wide_configs(tier, bfs=True, shrink=0):
    """(fam, kind, impl, sizes, n, variant, thin, weight); thin=None means a full BFS.
    shrink: take that many keys fewer (checks whose monitors are expensive per state)."""
    out = []
    for impl in F.IMPLS:
        # thorough: every family in C, the cover set in pure Python (about ten times slower per state)
        fams = WIDE_FAMS_QUICK[impl] if tier == 'quick' else (F.FAMILIES if impl == 'c' else F.COVER)
        w = 3 if impl == 'py' else 1
        for fam in fams:
            for kind in F.TREE_KINDS:
                bt = kind == 'BTree'
                out.append((fam, kind, impl, (2, 8), 10 - shrink, 'centred', 'asc' if bt else 'desc', 2 * w))
                out.append((fam, kind, impl, (8, 2), (11 if tier == 'quick' else 12) - shrink, 'centred',
                            'asc' if not bt else 'mid', 5 * w))
                if tier != 'quick' or bt:
                    out.append((fam, kind, impl, (6, 6), (11 if tier == 'quick' else 13) - shrink, 'centred',
                                'mid' if bt else 'asc', 5 * w))
                if bfs:
                    out.append((fam, kind, impl, (2, 8), 7, 'centred', None, 3 * w))
                    if tier != 'quick' or (impl == 'c' and bt):
                        out.append((fam, kind, impl, (8, 2), 9, 'centred', None, 11 * w))
    return out
