"""Violation collector shared by the check modules: known findings do not count towards the
per-job cap that stops a job once the check has failed anyway."""
import os

from . import findings


class Reporter:
    def __init__(self, prop, cap=40, keep_known=4000):
        self.prop = prop
        self.cap = int(os.environ.get('VERIF_CAP', cap))
        self.fresh = []
        self.known = []
        self.n_known = 0
        self.keep_known = keep_known

    def add(self, sig, case, detail):
        v = dict(prop=self.prop, sig=sig, case=case, detail=detail)
        if findings.match(self.prop, sig) is not None:
            self.n_known += 1
            if len(self.known) < self.keep_known:
                self.known.append(v)
            return False
        self.fresh.append(v)
        return True

    @property
    def full(self):
        return len(self.fresh) >= self.cap

    def all(self):
        return self.fresh + self.known
