"""Boring reference models: a dict / set kept sorted on demand.

The models mirror the *documented* API.  Only what they define is compared.
"""
from .fam import skey

_marker = object()


class MapModel:
    is_map = True

    def __init__(self, items=None):
        self.d = dict(items or ())

    def copy(self):
        return MapModel(self.d)

    # --- observation
    def contents(self):
        return sorted(self.d.items(), key=lambda kv: skey(kv[0]))

    def keylist(self):
        return sorted(self.d, key=skey)

    # --- mutators (names = op names)
    def setitem(self, k, v):
        self.d[k] = v

    def delitem(self, k):
        del self.d[k]

    def insert(self, k, v):
        if k in self.d:
            return 0
        self.d[k] = v
        return 1

    def setdefault(self, k, v):
        return self.d.setdefault(k, v)

    def pop(self, k, *d):
        return self.d.pop(k, *d)

    def popitem(self):
        if not self.d:
            raise KeyError
        k = min(self.d, key=skey)
        return k, self.d.pop(k)

    def clear(self):
        self.d.clear()

    def update(self, items):
        for k, v in items:
            self.d[k] = v

    # --- reads
    def get(self, k, *d):
        return self.d.get(k, *d)

    def getitem(self, k):
        return self.d[k]

    def contains(self, k):
        return k in self.d

    def length(self):
        return len(self.d)

    def range_items(self, lo, hi, exlo, exhi):
        """lo/hi None = unbounded.  An exclusive unbounded bound drops only the
        overall smallest / largest key (documented behaviour)."""
        items = self.contents()
        return _range_filter(items, lambda kv: kv[0], lo, hi, exlo, exhi)

    def minKey(self, b=_marker):
        ks = self.keylist()
        if b is not _marker and b is not None:
            ks = [k for k in ks if skey(k) >= skey(b)]
        if not ks:
            raise ValueError
        return ks[0]

    def maxKey(self, b=_marker):
        ks = self.keylist()
        if b is not _marker and b is not None:
            ks = [k for k in ks if skey(k) <= skey(b)]
        if not ks:
            raise ValueError
        return ks[-1]


def _range_filter(items, keyof, lo, hi, exlo, exhi):
    # index interval [a, b) over the sorted items
    n = len(items)
    if lo is None:
        a = 1 if exlo else 0
    else:
        a = 0
        while a < n and (skey(keyof(items[a])) < skey(lo) or
                         (exlo and skey(keyof(items[a])) == skey(lo))):
            a += 1
    if hi is None:
        b = n - 1 if exhi else n
    else:
        b = n
        while b > 0 and (skey(keyof(items[b - 1])) > skey(hi) or
                         (exhi and skey(keyof(items[b - 1])) == skey(hi))):
            b -= 1
    return items[a:b] if a < b else []


class SetModel:
    is_map = False

    def __init__(self, items=None):
        self.s = set(items or ())

    def copy(self):
        return SetModel(self.s)

    def contents(self):
        return sorted(self.s, key=skey)

    keylist = contents

    def add(self, k):
        if k in self.s:
            return 0
        self.s.add(k)
        return 1

    insert = add

    def remove(self, k):
        self.s.remove(k)

    def discard(self, k):
        self.s.discard(k)

    def pop(self):
        if not self.s:
            raise KeyError
        k = min(self.s, key=skey)
        self.s.remove(k)
        return k

    def clear(self):
        self.s.clear()

    def update(self, items):
        self.s.update(items)

    def ior(self, other):
        self.s |= set(other)

    def iand(self, other):
        self.s &= set(other)

    def isub(self, other):
        self.s -= set(other)

    def ixor(self, other):
        self.s ^= set(other)

    def contains(self, k):
        return k in self.s

    def length(self):
        return len(self.s)

    def isdisjoint(self, other):
        return self.s.isdisjoint(other)

    def range_items(self, lo, hi, exlo, exhi):
        return _range_filter(self.contents(), lambda k: k, lo, hi, exlo, exhi)

    minKey = MapModel.minKey
    maxKey = MapModel.maxKey


def model_for(kind, items=None):
    return MapModel(items) if kind in ('BTree', 'Bucket') else SetModel(items)
