"""Process pool with crash / hang attribution.

Each worker is a subprocess running vt.worker; one parent thread per worker feeds it
jobs.  A worker that dies or whose heartbeat stops is reported together with the case it
had recorded in its shared-memory slot.
"""
import os
import pickle
import queue
import select
import struct
import subprocess
import sys
import tempfile
import threading
import time

from . import slot

HANG_S = float(os.environ.get('VERIF_HANG_S', '90'))


class WorkerDied(Exception):
    def __init__(self, kind, rc, case, stderr):
        self.kind, self.rc, self.case, self.stderr = kind, rc, case, stderr


class _Worker:
    def __init__(self, env, tmpdir, idx):
        self.env = env
        self.slot_path = os.path.join(tmpdir, 'slot%d' % idx)
        self.err_path = os.path.join(tmpdir, 'err%d' % idx)
        self.proc = None

    def start(self):
        slot.create(self.slot_path)
        self.err = open(self.err_path, 'wb')
        self.proc = subprocess.Popen(
            [sys.executable, '-m', 'vt.worker', self.slot_path],
            stdin=subprocess.PIPE, stdout=subprocess.PIPE, stderr=self.err,
            env=self.env, cwd=os.path.dirname(os.path.dirname(os.path.abspath(__file__))))

    def stop(self):
        if self.proc and self.proc.poll() is None:
            try:
                self.proc.stdin.close()
                self.proc.wait(timeout=5)
            except Exception:
                self.proc.kill()
                self.proc.wait()
        self.proc = None

    def _stderr_tail(self):
        try:
            self.err.flush()
            with open(self.err_path, 'rb') as f:
                data = f.read()
            return data[-6000:].decode('utf-8', 'replace')
        except Exception:
            return ''

    def call(self, job):
        if self.proc is None or self.proc.poll() is not None:
            self.start()
        b = pickle.dumps(job, protocol=4)
        try:
            self.proc.stdin.write(struct.pack('<I', len(b)) + b)
            self.proc.stdin.flush()
        except BrokenPipeError:
            pass
        fd = self.proc.stdout.fileno()
        buf = b''
        need = 4
        hdr = None
        last_beat = None
        last_change = time.time()
        while True:
            r, _, _ = select.select([fd], [], [], 2.0)
            if r:
                chunk = os.read(fd, 1 << 20)
                if not chunk:
                    rc = self.proc.wait()
                    beat, case = slot.read(self.slot_path)
                    tail = self._stderr_tail()
                    self.proc = None
                    raise WorkerDied('crash', rc, case, tail)
                buf += chunk
                while True:
                    if hdr is None and len(buf) >= 4:
                        hdr = struct.unpack('<I', buf[:4])[0]
                        buf = buf[4:]
                    if hdr is not None and len(buf) >= hdr:
                        return pickle.loads(buf[:hdr])
                    break
                last_change = time.time()
            else:
                beat, case = slot.read(self.slot_path)
                if beat != last_beat:
                    last_beat = beat
                    last_change = time.time()
                elif time.time() - last_change > HANG_S:
                    self.proc.kill()
                    self.proc.wait()
                    tail = self._stderr_tail()
                    self.proc = None
                    raise WorkerDied('hang', None, case, tail)


def run_jobs(jobs, env, nproc=16, progress=None):
    """Yield (job, result_dict | WorkerDied) as they complete."""
    q = queue.Queue()
    for j in jobs:
        q.put(j)
    results = queue.Queue()
    tmpdir = tempfile.mkdtemp(prefix='vt-pool-', dir='/var/tmp')
    nproc = max(1, min(nproc, len(jobs)))

    def loop(idx):
        w = _Worker(env, tmpdir, idx)
        try:
            while True:
                try:
                    j = q.get_nowait()
                except queue.Empty:
                    break
                try:
                    r = w.call(j)
                except WorkerDied as e:
                    r = e
                except Exception as e:       # protocol trouble
                    r = {'ok': False, 'error': 'pool: %r' % (e,), 'trace': ''}
                    w.stop()
                results.put((j, r))
        finally:
            w.stop()
            results.put(None)

    threads = [threading.Thread(target=loop, args=(i,), daemon=True) for i in range(nproc)]
    for t in threads:
        t.start()
    done = 0
    try:
        while done < nproc:
            item = results.get()
            if item is None:
                done += 1
                continue
            yield item
    finally:
        import shutil
        shutil.rmtree(tmpdir, ignore_errors=True)
