"""Canonical structural dump of a container and an independent B+-tree walk.

The dump is obtained only through __getstate__ (recursively), so it is the same
code for the C and the Python implementation.  Nothing here calls _check() or
BTrees.check.

Canonical form of a tree:
    ('E',)                                  empty tree
    ('I', flat)                             tree with one embedded leaf
    (root, leaves)                          otherwise, where
        root   = ('T', (child, sep, child, ...), first)   child = node | ('L', idx)
        leaves = ((flat, next_idx | None), ...)           indexed by idx
Leaf indices are assigned in descent order; leaves reachable only through
firstbucket / next pointers ("foreign" leaves) get the following indices.
Canonical form of a bare Bucket/Set: ('B', flat, has_next).
"""
from .fam import skey


def _same(a, b):
    """Equality that also holds for states containing nan (C materialises a fresh float
    object per __getstate__ call, so `is` short-cuts do not apply)."""
    return a == b or repr(a) == repr(b)


def dump(t, tree):
    if not tree:
        st = t.__getstate__()
        return ('B', st[0], len(st) > 1)
    return dump_tree(t)


def dump_tree(t):
    st = t.__getstate__()
    if st is None:
        return ('E',)
    if len(st) == 1:
        fb = t._firstbucket
        bstate = st[0][0]
        if fb is None or fb._next is not None or not _same(fb.__getstate__(), bstate):
            return ('I', bstate[0], 'bad-firstbucket')
        return ('I', bstate[0])
    ttype = type(t)
    ids = {}
    objs = []

    def ref(leaf):
        if leaf is None:
            return None
        i = ids.get(id(leaf))
        if i is None:
            i = ids[id(leaf)] = len(objs)
            objs.append(leaf)
        return i

    pending_first = []

    def node(n, st):
        data, first = st
        out = []
        for i, x in enumerate(data):
            if i & 1:
                out.append(x)
            elif type(x) is ttype:
                cst = x.__getstate__()
                if cst is None:
                    out.append(('E',))
                elif len(cst) == 1:
                    # interior node with one never-stored leaf: its state embeds
                    # the leaf; recover the leaf object itself
                    if hasattr(x, '_data'):
                        leaf = x._data[0].child
                    else:
                        leaf = x._firstbucket
                    if leaf is None or not _same(leaf.__getstate__(), cst[0][0]):
                        out.append(('X', 'single-leaf node: _firstbucket is not its leaf'))
                    else:
                        h = ['T', (('L', ref(leaf)),), x._firstbucket]
                        pending_first.append(h)
                        out.append(h)
                else:
                    out.append(node(x, cst))
            else:
                out.append(('L', ref(x)))
        holder = ['T', tuple(out), first]
        pending_first.append(holder)
        return holder

    root = node(t, st)
    # resolve firstbucket references after all descent leaves have indices
    def freeze(h):
        if isinstance(h, list):
            return ('T', tuple(freeze(c) if isinstance(c, list) else c for c in h[1]),
                    ref(h[2]))
        return h
    root = freeze(root)
    leaves = []
    i = 0
    while i < len(objs):
        if type(objs[i]) is ttype:
            # a firstbucket / next pointer that names an interior node: keep the dump
            # deterministic (no live objects in it); the walk reports the damage
            leaves.append((('X', 'tree node where a leaf is expected'), None))
            i += 1
            continue
        lst = objs[i].__getstate__()
        nxt = ref(lst[1]) if len(lst) > 1 else None
        leaves.append((lst[0], nxt))
        i += 1
        if i > 10000:
            raise RuntimeError('runaway leaf chain')
    node = freeze = None    # break the closure cycles: they would keep the tree nodes alive until a collection
    return (root, tuple(leaves))


# --------------------------------------------------------------------------

def flat_keys(flat, is_map):
    return list(flat[::2]) if is_map else list(flat)


def contents_of(c, is_map):
    """Ordered contents by *descent* order (not the chain)."""
    out = []
    if c[0] == 'E':
        return out
    if c[0] in ('I', 'B'):
        return _flat_items(c[1], is_map)
    root, leaves = c

    def rec(n):
        if n[0] == 'L':
            out.extend(_flat_items(leaves[n[1]][0], is_map))
        elif n[0] == 'I':
            out.extend(_flat_items(n[1], is_map))
        elif n[0] == 'T':
            for ch in n[1][::2]:
                rec(ch)
    rec(root)
    rec = None      # break the closure cycle
    return out


def _flat_items(flat, is_map):
    if is_map:
        return list(zip(flat[::2], flat[1::2]))
    return list(flat)


def walk(c, is_map, max_leaf=None, max_internal=None):
    """Independent invariant walk over a canonical form.  Returns a list of
    problem strings (empty list = sound)."""
    probs = []
    if c[0] == 'E':
        return probs
    if c[0] in ('I', 'B'):
        ks = flat_keys(c[1], is_map)
        if c[0] == 'I' and len(c) > 2:
            probs.append('single-leaf tree: firstbucket/next damaged')
        if c[0] == 'I' and not ks:
            probs.append('embedded leaf is empty')
        _ascending(ks, probs, 'leaf')
        if c[0] == 'I' and max_leaf is not None and len(ks) > max_leaf:
            probs.append('leaf has %d > max_leaf_size entries' % len(ks))
        return probs
    root, leaves = c
    order = []          # leaf indices in descent order

    def rec(n, lo, hi, is_root):
        # returns leftmost leaf idx of subtree (or None)
        if n[0] != 'T':
            probs.append('interior node child of unexpected form %r' % (n[0],))
            return None
        data = n[1]
        children = data[::2]
        seps = data[1::2]
        if not children:
            probs.append('interior node has no children')
            return None
        kinds = {ch[0] for ch in children}
        if len(kinds) > 1:
            probs.append('children of mixed kinds %s' % sorted(kinds))
        if max_internal is not None:
            lim = 2 * max_internal - 1 if is_root else max_internal
            if len(children) > lim:
                probs.append('interior node has %d children (limit %d, root=%s)'
                             % (len(children), lim, is_root))
        sk = [skey(s) for s in seps]
        for a, b in zip(sk, sk[1:]):
            if not a < b:
                probs.append('separators not strictly ascending')
        for s in sk:
            if lo is not None and s < lo:
                probs.append('separator below range promised by ancestors')
            if hi is not None and not s < hi:
                probs.append('separator above range promised by ancestors')
        leftmost = None
        for i, ch in enumerate(children):
            clo = sk[i - 1] if i > 0 else lo
            chi = sk[i] if i < len(sk) else hi
            if ch[0] == 'L':
                idx = ch[1]
                order.append(idx)
                ks = [skey(k) for k in flat_keys(leaves[idx][0], is_map)]
                if not ks:
                    probs.append('empty leaf %d in non-empty tree' % idx)
                for k in ks:
                    if clo is not None and k < clo:
                        probs.append('key in leaf %d below separator' % idx)
                        break
                    if chi is not None and not k < chi:
                        probs.append('key in leaf %d not below next separator' % idx)
                        break
                if max_leaf is not None and len(ks) > max_leaf:
                    probs.append('leaf %d has %d > max_leaf_size entries' % (idx, len(ks)))
                lm = idx
            elif ch[0] == 'T':
                lm = rec(ch, clo, chi, False)
            elif ch[0] == 'E':
                probs.append('empty interior node in non-empty tree')
                lm = None
            elif ch[0] == 'X':
                probs.append(ch[1])
                lm = None
            else:
                probs.append('unknown child form')
                lm = None
            if i == 0:
                leftmost = lm
        if n[2] != leftmost:
            probs.append('firstbucket %r is not the leftmost leaf %r' % (n[2], leftmost))
        return leftmost

    try:
        rec(root, None, None, True)
    finally:
        rec = None      # break the closure cycle
    if len(set(order)) != len(order):
        probs.append('a leaf is reachable twice by descent')
    # chain
    if order:
        for a, b in zip(order, order[1:]):
            if leaves[a][1] != b:
                probs.append('leaf %d next is %r, descent successor is %d'
                             % (a, leaves[a][1], b))
        if leaves[order[-1]][1] is not None:
            probs.append('last leaf has a successor')
    if len(leaves) != len(order):
        probs.append('%d leaves reachable by pointers but not by descent'
                     % (len(leaves) - len(order)))
    # global ascending order along descent
    allk = []
    for idx in order:
        allk.extend(flat_keys(leaves[idx][0], is_map))
    _ascending(allk, probs, 'tree')
    return probs


def _ascending(ks, probs, what):
    sk = [skey(k) for k in ks]
    for a, b in zip(sk, sk[1:]):
        if not a < b:
            probs.append('%s keys not strictly ascending' % what)
            return


def chain_contents(c, is_map):
    """Contents by following firstbucket + next (what iteration sees)."""
    if c[0] == 'E':
        return []
    if c[0] in ('I', 'B'):
        return _flat_items(c[1], is_map)
    root, leaves = c
    out = []
    i = root[2]
    seen = set()
    while i is not None and i not in seen:
        seen.add(i)
        out.extend(_flat_items(leaves[i][0], is_map))
        i = leaves[i][1]
    return out


# --- shape statistics for vacuity guards ----------------------------------

def shape_stats(c):
    """(height, n_leaves, n_interior, has_single_child_interior, stale_separator)"""
    if c[0] in ('E', 'I', 'B'):
        return {'height': 0 if c[0] == 'E' else 1, 'leaves': 0 if c[0] == 'E' else 1,
                'interior': 0, 'single_child': False, 'stale_sep': False}
    root, leaves = c
    st = {'height': 0, 'leaves': len(leaves), 'interior': 0,
          'single_child': False, 'stale_sep': False}

    def minkey(n):
        if n[0] == 'L':
            f = leaves[n[1]][0]
            return f[0] if f else None
        if n[0] == 'T' and n[1]:
            return minkey(n[1][0])
        return None

    def rec(n, depth):
        if n[0] == 'L':
            st['height'] = max(st['height'], depth)
            return
        if n[0] != 'T':
            return
        st['interior'] += 1
        ch = n[1][::2]
        seps = n[1][1::2]
        if len(ch) == 1 and depth > 1:
            st['single_child'] = True
        if len(ch) == 1 and depth == 1 and ch[0][0] == 'T':
            st['single_child'] = True
        for i, s in enumerate(seps):
            mk = minkey(ch[i + 1])
            if mk is not None and skey(mk) != skey(s):
                st['stale_sep'] = True
        for x in ch:
            rec(x, depth + 1)
    rec(root, 1)
    rec = minkey = None     # break the closure cycles
    return st


def sticky_nodes(t, tree):
    """Nodes of a C container that are still pinned (_p_state == STICKY) - looked at BEFORE the node's
    own __getstate__ runs (every entry point brackets itself with PER_USE / PER_UNUSE and would unpin it)."""
    out = []
    seen = set()
    stack = [t]
    ttype = type(t)
    while stack:
        n = stack.pop()
        if n is None or id(n) in seen:
            continue
        seen.add(id(n))
        if getattr(n, '_p_state', 0) == 2:
            out.append(type(n).__name__)
        st = n.__getstate__()
        if tree and type(n) is ttype:
            if st is None:
                continue
            if len(st) == 1:
                stack.append(getattr(n, '_firstbucket', None))
            else:
                stack.extend(st[0][::2])
                stack.append(st[1])
        elif st is not None and len(st) > 1:
            stack.append(st[1])
    return out


def has_lone_leaf_node(c):
    """True if some NON-root interior node has exactly one child and that child is a leaf.
    Such a node serialises its leaf inline when the leaf has no oid (see DESIGN F12)."""
    if c[0] in ('E', 'I', 'B'):
        return False

    def rec(n, is_root):
        if n[0] != 'T':
            return False
        ch = n[1][::2]
        if not is_root and len(ch) == 1 and ch[0][0] == 'L':
            return True
        return any(rec(x, False) for x in ch)
    try:
        return rec(c[0], True)
    finally:
        rec = None      # break the closure cycle (no cyclic garbage: the reference ledgers run with the collector off)
