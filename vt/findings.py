"""Known findings (read-only at run time)."""
import json
import os

HERE = os.path.dirname(os.path.dirname(os.path.abspath(__file__)))
_cache = None


def load():
    global _cache
    if _cache is None:
        p = os.path.join(HERE, 'known_findings.json')
        if os.path.exists(p):
            with open(p) as f:
                _cache = json.load(f).get('findings', [])
        else:
            _cache = []
    return _cache


def match(prop, sig, findings=None):
    for f in (load() if findings is None else findings):
        if f.get('status') != 'open' or f.get('property') != prop:
            continue
        ok = True
        for k, want in f.get('match', {}).items():
            have = sig.get(k)
            if isinstance(want, list):
                if have not in want:
                    ok = False
                    break
            elif have != want:
                ok = False
                break
        if ok:
            return f
    return None
