"""setup-time self checks of the harness (run by ./check setup)."""
import sys

from . import build, pool


def main():
    env = build.worker_env('plain')
    job = {'mod': 'vt.selfcheck', 'fn': 'inworker', 'args': {}, 'id': 0}
    for j, r in pool.run_jobs([job], env, 1):
        if isinstance(r, pool.WorkerDied) or not r.get('ok'):
            print('HARNESS-ERROR: selfcheck failed: %r' % (getattr(r, 'stderr', r),))
            return 2
        print('[setup] selfcheck ok: %s' % r['result'])
    return 0


def inworker():
    from . import fam as F
    F.check_build()
    import BTrees._IIBTree as m
    assert hasattr(m, '_verif_alloc'), 'hook not compiled in'
    out = {'hook': True}
    try:
        from . import minidb
        out['minidb'] = minidb.selftest()
    except ImportError:
        pass
    return out
