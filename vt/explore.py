"""E1: explicit-state BFS whose transition function is the implementation.

A state is identified by its canonical structural dump; it is *reached* by replaying its
shortest history on a fresh object.  Every op of the alphabet is applied in every state.
"""
import collections

from . import canon as C
from . import ops as O
from . import slot
from .models import model_for


class Violation(dict):
    pass


def viol(prop, sig, case, detail):
    return Violation(prop=prop, sig=sig, case=case, detail=detail)


class HarnessError(Exception):
    pass


class Explorer:
    def __init__(self, ctx, alphabet, *, sizes=None, max_states=None,
                 check_ops=True, prop='C01', base_case=None, prefix=(), max_depth=None):
        self.ctx = ctx
        self.alphabet = alphabet
        self.sizes = sizes
        self.max_states = max_states
        self.check_ops = check_ops
        self.prop = prop
        self.base_case = base_case or {}
        self.prefix = tuple(prefix)     # scripted build executed before the BFS starts
        self.depth_bound = max_depth    # states at this BFS depth are monitored but not expanded
        self.violations = []
        self.known = []
        self.n_known = 0
        self.max_violations = 40
        self.states = 0
        self.transitions = 0
        self.compared = 0
        self.max_depth = 0
        self.exhaustive = True
        self.guards = collections.Counter()
        self.outcomes = collections.Counter()
        self.state_monitors = []      # f(explorer, hist, t, model, canon)
        self.trans_monitors = []      # f(explorer, hist, op, t, model, canon, result)
        self.sample = None

    # -- helpers
    def rebuild(self, hist):
        t = self.ctx.new()
        ctx = self.ctx
        for op in hist:
            O.fast_apply(ctx, t, op)
        return t

    def case(self, hist, op=None, **extra):
        d = dict(self.base_case)
        d.update(fam=self.ctx.fam, kind=self.ctx.kind, impl=self.ctx.impl,
                 sizes=self.sizes, history=list(hist))
        if op is not None:
            d['op'] = op
        d.update(extra)
        return d

    def sig(self, site, cls, op=None, **extra):
        d = dict(impl=self.ctx.impl, kind=self.ctx.kind, fam=self.ctx.fam,
                 site=site, cls=cls)
        if 'variant' in self.base_case:
            d['variant'] = self.base_case['variant']
        if op is not None and len(op) > 2 and op[0] in (
                'update', 'ior', 'iand', 'isub', 'ixor'):
            d['form'] = op[1]
        d.update(extra)
        return d

    def report(self, v):
        from . import findings
        if findings.match(v.get('prop', self.prop), v.get('sig', {})) is not None:
            # known finding: reported by the runner, does not count towards the cap
            if self.n_known < 20000:
                self.known.append(v)
            self.n_known += 1
            return
        if len(self.violations) < 2000:
            self.violations.append(v)
        else:
            self.guards['violations_dropped'] += 1

    # -- main loop
    def run(self):
        ctx = self.ctx
        is_map = ctx.is_map
        tree = ctx.is_tree
        t0 = ctx.new()
        m0 = model_for(ctx.kind)
        for op in self.prefix:
            O.fast_apply(ctx, t0, op)
            O.apply_model(m0, op)
        c0 = C.dump(t0, tree)
        seen = {c0: 0}
        frontier = collections.deque([(self.prefix, m0, c0)])
        self.states = 1
        self._new_state(self.prefix, t0, m0, c0, None)
        while frontier:
            if len(self.violations) >= self.max_violations:
                # the check has failed already; a damaged container can make the state
                # space unbounded (duplicate keys pile up), so stop expanding
                self.exhaustive = False
                self.guards['stopped_after_violations'] += 1
                break
            hist, model, key = frontier.popleft()
            depth = len(hist) - len(self.prefix)
            if self.depth_bound is not None and depth >= self.depth_bound:
                self.guards['depth_bound_states'] += 1
                continue
            first = True
            for op in self.alphabet:
                slot.set(('E1', ctx.fam, ctx.kind, ctx.impl, self.sizes, hist, op))
                t = self.rebuild(hist)
                if first:
                    first = False
                    if C.dump(t, tree) != key:
                        raise HarnessError('replay of %r did not reproduce its state'
                                           % (hist,))
                m = model.copy()
                rs = O.apply_sut(ctx, t, op)
                rm = O.apply_model(m, op)
                self.transitions += 1
                self.outcomes[(op[0], rs[0], rs[1] if rs[0] == 'exc' else '')] += 1
                after = None
                if self.check_ops:
                    self.compared += 1
                    if not O.same_outcome(op, rs, rm):
                        self.report(viol(self.prop, self.sig(op[0], 'result', op),
                                         self.case(hist, op),
                                         'result %r, model %r' % (rs, rm)))
                    try:
                        after = O.contents(ctx, t)
                    except Exception as e:
                        after = ('exc', type(e).__name__)
                    want = m.contents()
                    if after != want:
                        self.report(viol(self.prop, self.sig(op[0], 'contents', op),
                                         self.case(hist, op),
                                         'contents %r, model %r' % (after, want)))
                        # the model is the truth for subsequent exploration only if
                        # the implementation agrees; do not explore further from here
                        continue
                try:
                    c = C.dump(t, tree)
                except Exception as e:
                    self.report(viol(self.prop, self.sig(op[0], 'dump-failed'),
                                     self.case(hist, op), repr(e)))
                    continue
                for mon in self.trans_monitors:
                    mon(self, hist, op, t, m, c, rs)
                if c not in seen:
                    if self.max_states and len(seen) >= self.max_states:
                        self.exhaustive = False
                        continue
                    seen[c] = depth + 1
                    self.states += 1
                    self.max_depth = max(self.max_depth, depth + 1)
                    nh = hist + (op,)
                    frontier.append((nh, m, c))
                    self._new_state(nh, t, m, c, key)
        return self

    def _new_state(self, hist, t, model, c, parent):
        if self.sample is None and len(hist) >= 3:
            self.sample = self.case(hist)
        if self.ctx.is_tree:
            st = C.shape_stats(c)
            g = self.guards
            if st['height'] >= 2:
                g['height>=2'] += 1
            if st['height'] >= 3:
                g['height>=3'] += 1
            if st['single_child']:
                g['single_child_interior'] += 1
            if st['stale_sep']:
                g['stale_separator'] += 1
        for mon in self.state_monitors:
            mon(self, hist, t, model, c)
