"""C02 - range searches, minKey/maxKey and lazy sequences are exact.

E1 monitor: in every reachable shape, every (min, max) over all keys, all gap positions,
omitted and None x 4 exclusion flag combinations x every range method; minKey/maxKey for
every bound; index / slice / len / descending re-index on the lazy sequences.
"""
from .. import fam as F
from .. import space as S

LEVEL = 'model_checking'
RULE = ('states = distinct canonical shapes reachable from the empty container by insert/delete/'
        'pop-min/clear over the key universe (BFS fixed point); in every state every range call '
        '(method x min x max x excludemin x excludemax with min,max over all keys, all gap '
        'positions, omitted, None), minKey/maxKey of every bound, and index/slice/len probes of '
        'the lazy sequences are executed on the implementation and compared with an interval '
        'filter over the reference model; evaluations = number of compared calls; '
        'distinct_nontrivial = states')
TRUSTED = ['CPython 3.12', 'persistent 6.8', 'vt harness (explorer, reference models, canonical dump)']
ASSUMPTIONS = ['key universes of <= 7 keys; bounds drawn from the 2N+1 grid around them',
               'node sizes from {2,3,4}; slices with step != 1 are outside the property']

OMIT = '<omitted>'


def bounds(tier):
    return ('quick: cover families deep (C: BTree N=6 @2/2 ranges, N=5 @2/2 with full index/slice '
            'probing, N=5 @2/3,3/2, extreme and None universes; Py: N=5 @2/2, N=4 @2/3,3/2 with '
            'index/slice probing), other families N=4 with index/slice probing, leaf kinds N=5/4; '
            'wide nodes (thinning spaces @2/8 8 keys, 8/2 and 6/6 9 keys; leaves of 8 keys; reduced bound '
            'pairs, sequences indexed) for OO LQ fs (C) / OO (Py); '
            'thorough: all 22 deep, N=7 C / N=6 Py, six more size pairs at N=6, wide nodes for all families')


def required_guards(tier):
    return ['height>=3', 'single_child_interior', 'nonempty_ranges',
            'empty_ranges', 'index_probes', 'slice_probes']


def configs(tier):
    """(fam, kind, impl, sizes, n, variant, level, weight)"""
    out = []
    deep = F.COVER if tier == 'quick' else F.FAMILIES
    for fam in F.FAMILIES:
        for impl in F.IMPLS:
            c = impl == 'c'
            for kind in F.TREE_KINDS:
                bt = kind == 'BTree'
                if fam not in deep:
                    out.append((fam, kind, impl, (2, 2), 4, 'centred', 2 if c else 1, 2 if c else 5))
                    if bt:
                        out.append((fam, kind, impl, (2, 2), 4, 'extreme', 0, 1 if c else 3))
                    continue
                if tier == 'quick':
                    if c:
                        if bt:
                            out.append((fam, kind, impl, (2, 2), 6, 'centred', 0, 40))
                        out.append((fam, kind, impl, (2, 2), 5, 'centred', 2, 15))
                        out.append((fam, kind, impl, (2, 3), 5, 'centred', 1, 2))
                        out.append((fam, kind, impl, (3, 2), 5, 'centred', 1, 2))
                        out.append((fam, kind, impl, (2, 2), 5, 'extreme', 0, 2))
                        if fam[0] == 'O':
                            out.append((fam, kind, impl, (2, 2), 5, 'none', 1, 4))
                    else:
                        out.append((fam, kind, impl, (2, 2), 5, 'centred', 1 if bt else 0,
                                    26 if bt else 19))
                        out.append((fam, kind, impl, (2, 3) if bt else (3, 2), 4, 'centred', 2, 5))
                        if bt:
                            out.append((fam, kind, impl, (2, 2), 4, 'extreme', 1, 5))
                        if fam[0] == 'O':
                            out.append((fam, kind, impl, (2, 2), 4, 'none', 2, 9))
                else:
                    out.append((fam, kind, impl, (2, 2), 7 if c else 6, 'centred', 0, 400 if c else 600))
                    out.append((fam, kind, impl, (2, 2), 5, 'centred', 2, 15 if c else 150))
                    for sz in ((2, 3), (3, 2), (3, 3), (2, 4), (4, 2), (4, 4)):
                        out.append((fam, kind, impl, sz, 6, 'centred', 1 if c else 0, 20 if c else 100))
                    out.append((fam, kind, impl, (2, 2), 6 if c else 5, 'extreme', 1, 40))
                    if fam[0] == 'O':
                        out.append((fam, kind, impl, (2, 2), 6 if c else 5, 'none', 1, 40))
            for kind in ('Bucket', 'Set'):
                for var in F.variants(fam):
                    out.append((fam, kind, impl, None, 5 if fam in deep else 4, var, 0,
                                1 if c else 2))
    return out


def jobs(tier):
    js = []
    for fam, kind, impl, sizes, n, var, level, w in configs(tier):
        js.append({'fn': 'job', 'weight': w,
                   'group': '%s/%s' % (impl, 'tree' if kind in F.TREE_KINDS else 'leaf'),
                   'args': dict(fam=fam, kind=kind, impl=impl, sizes=sizes, n=n, variant=var,
                                level=level)})
    # thinning spaces: 8 keys built in a scripted order, then every deletion history
    deep = F.COVER if tier == 'quick' else F.FAMILIES
    for fam in deep:
        for impl in F.IMPLS:
            for kind in F.TREE_KINDS:
                for order in ('asc', 'desc'):
                    if tier == 'quick' and (kind == 'TreeSet') != (order == 'desc'):
                        continue
                    js.append({'fn': 'job', 'weight': 20 if impl == 'py' else 3,
                               'group': '%s/thin' % impl,
                               'args': dict(fam=fam, kind=kind, impl=impl, sizes=(2, 2),
                                            n=8 if tier == 'quick' else 9, variant='centred',
                                            level=0 if impl == 'py' else 1, thin=order)})
    # wide nodes (vt.space.wide_configs): reduced bound pairs (axis_pairs), sequences indexed
    for fam, kind, impl, sizes, n, var, thin, w in S.wide_configs(tier, bfs=False,
                                                                   shrink=2 if tier == 'quick' else 1):
        if tier == 'quick' and impl == 'py' and fam != 'OO':
            continue
        js.append({'fn': 'job', 'weight': 6 * w, 'group': '%s/wide' % impl,
                   'args': dict(fam=fam, kind=kind, impl=impl, sizes=sizes, n=n, variant=var,
                                level=0 if (impl == 'py' and tier == 'quick') else 1, thin=thin,
                                axes=True)})
    for fam in (F.COVER if tier == 'quick' else F.FAMILIES):
        for impl in F.IMPLS:
            for kind in ('Bucket', 'Set'):
                if tier == 'quick' and impl == 'py' and fam not in ('OO', 'IF'):
                    continue
                js.append({'fn': 'job', 'weight': 4 if impl == 'c' else 12, 'group': '%s/wide' % impl,
                           'args': dict(fam=fam, kind=kind, impl=impl, sizes=None, n=8,
                                        variant='centred', level=0)})
    return js


# --------------------------------------------------------------------------

def _kind_of(b, keyset):
    if b is OMIT:
        return 'omit'
    if b is None:
        return 'none'
    return 'key' if b in keyset else 'gap'


def _call(t, meth, lo, hi, exlo, exhi):
    kw = {}
    if lo is not OMIT:
        kw['min'] = lo
    if hi is not OMIT:
        kw['max'] = hi
    if exlo:
        kw['excludemin'] = True
    if exhi:
        kw['excludemax'] = True
    return getattr(t, meth)(**kw)


def _methods(ctx, t):
    if ctx.is_map:
        ms = ['keys', 'values', 'items', 'iterkeys', 'itervalues', 'iteritems']
    else:
        ms = ['keys', 'iterkeys']
    return [m for m in ms if hasattr(t, m)]


def _project(meth, items, is_map):
    if not is_map:
        return items
    if meth in ('keys', 'iterkeys'):
        return [k for k, v in items]
    if meth in ('values', 'itervalues'):
        return [v for k, v in items]
    return items


def check_sequence(seq, want, level):
    """Compare a lazy sequence with the list `want`. Returns (n_checks, problem|None)."""
    n = 0
    L = len(want)
    if len(seq) != L:
        return 1, 'len() = %r, expected %r' % (len(seq), L)
    n += 1
    if bool(seq) != bool(want):
        return n, 'bool() = %r' % bool(seq)
    n += 1
    idx = list(range(-L - 1, L + 1))
    for order in (idx, idx[::-1]):
        for i in order:
            n += 1
            try:
                got = ('ok', seq[i])
            except IndexError:
                got = ('IndexError',)
            except Exception as e:      # noqa
                got = (type(e).__name__,)
            exp = ('ok', want[i]) if -L <= i < L else ('IndexError',)
            if got != exp:
                return n, 'seq[%d] -> %r, expected %r' % (i, got, exp)
    if level >= 2:
        ends = [None] + idx
        for i in ends:
            for j in ends:
                n += 1
                try:
                    got = list(seq[i:j])
                except Exception as e:      # noqa
                    got = type(e).__name__
                if got != want[i:j]:
                    return n, 'seq[%r:%r] -> %r, expected %r' % (i, j, got, want[i:j])
    # iteration after random access (finger must not disturb it)
    n += 1
    if list(seq) != want:
        return n, 'list(seq) after indexing -> %r, expected %r' % (list(seq), want)
    return n, None


def axis_pairs(grid):
    """Reduced set of bound pairs for wide spaces (O(n) instead of O(n^2)): every grid position as
    lower bound alone, as upper bound alone, against itself, against its two successors, against both
    ends of the grid, and crossed with its successor."""
    g = list(grid)
    out = [(OMIT, OMIT), (None, None), (OMIT, None), (None, OMIT)]
    for i, b in enumerate(g):
        out += [(b, OMIT), (OMIT, b), (b, None), (None, b), (b, b), (b, g[-1]), (g[0], b)]
        for d in (1, 2, 5):
            if i + d < len(g):
                out.append((b, g[i + d]))
        if i + 1 < len(g):
            out.append((g[i + 1], b))
    return out


def range_monitor(grid, level, axes=False):
    bset = [OMIT, None] + list(grid)
    pairs = axis_pairs(grid) if axes else [(lo, hi) for lo in bset for hi in bset]

    def mon(ex, hist, t, model, c):
        ctx = ex.ctx
        is_map = ctx.is_map
        keyset = set(model.keylist())
        meths = _methods(ctx, t)
        n = 0
        g = ex.guards
        for lo, hi in pairs:
            if True:
                for exlo in (False, True):
                    for exhi in (False, True):
                        items = model.range_items(None if lo is OMIT else lo,
                                                  None if hi is OMIT else hi, exlo, exhi)
                        if items:
                            g['nonempty_ranges'] += 1
                        else:
                            g['empty_ranges'] += 1
                        for meth in meths:
                            want = _project(meth, items, is_map)
                            n += 1
                            try:
                                seq = _call(t, meth, lo, hi, exlo, exhi)
                                got = list(seq)
                            except Exception as e:      # noqa
                                seq = None
                                got = ('exc', type(e).__name__)
                            if got != want:
                                ex.report(dict(
                                    prop='C02',
                                    sig=ex.sig(meth, 'range', lo=_kind_of(lo, keyset),
                                               hi=_kind_of(hi, keyset), exlo=exlo, exhi=exhi),
                                    case=ex.case(hist, ('range', meth, lo, hi, exlo, exhi)),
                                    detail='%s(min=%r,max=%r,excludemin=%r,excludemax=%r) -> %r, '
                                           'expected %r' % (meth, lo, hi, exlo, exhi, got, want)))
                                continue
                            if (ctx.is_tree and not meth.startswith('iter') and level >= 1
                                    and (level >= 2 or not (exlo or exhi))):
                                seq = _call(t, meth, lo, hi, exlo, exhi)
                                k, prob = check_sequence(seq, want, level if (
                                    level >= 2 and lo is not None and hi is not None) else 1)
                                n += k
                                g['index_probes'] += k
                                if level >= 2:
                                    g['slice_probes'] += 1
                                if prob:
                                    ex.report(dict(
                                        prop='C02',
                                        sig=ex.sig(meth, 'sequence', lo=_kind_of(lo, keyset),
                                                   hi=_kind_of(hi, keyset), exlo=exlo, exhi=exhi),
                                        case=ex.case(hist, ('seq', meth, lo, hi, exlo, exhi)),
                                        detail='%s(min=%r,max=%r,excludemin=%r,excludemax=%r): %s'
                                               % (meth, lo, hi, exlo, exhi, prob)))
        for name in ('minKey', 'maxKey'):
            for b in bset:
                n += 1
                try:
                    want = ('ok', getattr(model, name)(*(() if b is OMIT else (b,))))
                except ValueError:
                    want = ('exc', 'ValueError')
                try:
                    got = ('ok', getattr(t, name)(*(() if b is OMIT else (b,))))
                except Exception as e:      # noqa
                    got = ('exc', type(e).__name__)
                if got != want:
                    ex.report(dict(prop='C02',
                                   sig=ex.sig(name, 'minmax', b=_kind_of(b, keyset),
                                              empty=not keyset),
                                   case=ex.case(hist, (name, b)),
                                   detail='%s(%r) -> %r, expected %r' % (name, b, got, want)))
        g['probes'] += n
    return mon


def job(fam, kind, impl, sizes, n, variant, level=0, thin=None, axes=False):
    ex = S.explorer(fam, kind, impl, sizes, n, variant, 'C02', thin=thin)
    ex.base_case['level'] = level
    ex.state_monitors.append(range_monitor(ex.grid, level if kind in F.TREE_KINDS else 0, axes))
    ex.run()
    probes = ex.guards.pop('probes', 0)
    return S.result(ex, extra_eval=probes)


def replay(case):
    from .. import ops as O
    ctx, t, m = S.replay_state(case)
    op = S._tup(case['op'])
    out = []
    keyset = set(m.keylist())

    def v(site, cls, detail, **kw):
        out.append(dict(prop='C02', sig=dict(site=site, cls=cls, **kw), case=case, detail=detail))
    if op[0] in ('range', 'seq'):
        _, meth, lo, hi, exlo, exhi = op
        lo = OMIT if lo == OMIT else lo
        hi = OMIT if hi == OMIT else hi
        items = m.range_items(None if lo is OMIT else lo, None if hi is OMIT else hi, exlo, exhi)
        want = _project(meth, items, ctx.is_map)
        try:
            seq = _call(t, meth, lo, hi, exlo, exhi)
            got = list(seq)
        except Exception as e:      # noqa
            got = ('exc', type(e).__name__)
        if got != want:
            v(meth, 'range', '%r -> %r, expected %r' % (op, got, want))
        elif op[0] == 'seq':
            seq = _call(t, meth, lo, hi, exlo, exhi)
            k, prob = check_sequence(seq, want, 2)
            if prob:
                v(meth, 'sequence', '%r: %s' % (op, prob))
    else:
        name, b = op
        b = OMIT if b == OMIT else b
        try:
            want = ('ok', getattr(m, name)(*(() if b is OMIT else (b,))))
        except ValueError:
            want = ('exc', 'ValueError')
        try:
            got = ('ok', getattr(t, name)(*(() if b is OMIT else (b,))))
        except Exception as e:      # noqa
            got = ('exc', type(e).__name__)
        if got != want:
            v(name, 'minmax', '%s(%r) -> %r, expected %r' % (name, b, got, want))
    return dict(violations=out)
