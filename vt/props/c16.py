"""C16 - the C extension accounts for every reference and stays inside its memory.

E1/E3 under AddressSanitizer + UBSan (assert()-enabled build, PYTHONMALLOC=malloc) with an
EXACT REFERENCE LEDGER as oracle.  Keys and values are instances of tracked classes; the harness
never keeps a strong reference to one.  After every execution

  * census: the container(s) are walked through __getstate__ (recursively: leaf key / value
    slots, separators from index 1, child slots, firstbucket slots, next links); this gives, per
    object identity, the number of slots that own a reference;
  * for every tracked key / value and every non-root node: sys.getrefcount == slots owning it
    (+ the harness' own, known references) - a surplus is a leak, a deficit a premature release;
  * every tracked object that the census did not meet must be dead (weak reference cleared);
  * after the containers are dropped every tracked object is dead.

The space: BFS over every reachable shape (history replay with FRESH key / value objects per
replay); in every state every operation of a catalogue (mutators incl. replace / setdefault / pop /
update / in-place operators, lookups with fresh probe objects, min/max, lazy sequences, iterators
abandoned after p steps, set algebra with a second container holding equal-but-distinct objects,
weighted forms, conflict merges with a successor link, pickle / copy / __setstate__ incl. states
whose k-th item fails conversion, failing calls) and - object keys - the same operations with key
comparison n raising, for every n; plus a data-manager variant (commit, sweep, reload, abort).
"""
import collections
import copy
import gc
import pickle
import sys
import weakref

from .. import fam as F
from .. import canon as C
from .. import kkey
from .. import minidb as M
from .. import slot
from ..kkey import K, CmpFault
from ..report import Reporter
from .c04 import lone_inline

LEVEL = 'exploration'
RULE = ('for every reachable shape (BFS fixed point; each state re-reached by replaying its shortest '
        'history with fresh tracked key / value objects) every operation of the catalogue is executed '
        'and followed by an exact reference census: refcount of every tracked key / value object and of '
        'every non-root node == number of container slots owning it (from a recursive __getstate__ walk), '
        'unreferenced tracked objects are dead, everything is dead after the containers are dropped; '
        'object-keyed families: additionally every operation is re-run with key comparison n raising for '
        'EVERY n; the whole run is under AddressSanitizer/UBSan with assertions enabled (any report '
        'aborts the worker = violation); evaluations = audited executions; distinct_nontrivial = '
        'distinct (state, operation, fault index) triples')
TRUSTED = ['CPython 3.12 (sys.getrefcount, weakref)', 'persistent 6.8', 'gcc libasan/libubsan', 'vt harness']
ASSUMPTIONS = ['raw malloc blocks that leak without holding Python objects are not observed',
               'key universes of <= 6 keys, node sizes 2/2, 3/2, 2/3; one comparison fault per operation']
OBJ_FAMS = ['OO', 'OI', 'OL', 'OU', 'OQ', 'IO', 'LO', 'UO', 'QO']


def bounds(tier):
    return ('quick: OO, OI, IO x 4 kinds: trees N=4 @2/2 and 3/2 and N=5 @2/2 full catalogue + every '
            'comparison fault, thinning space of 7 keys; leaves N=4; the other six object families N=4 '
            'with faults; '
            'data-manager variant N=4; thorough: all 9 object families, N=5 with faults, N=6 without, '
            'thinning spaces of 9 keys')


def required_guards(tier):
    return ['audits', 'audited_objects', 'op:mutate', 'op:read', 'op:iter', 'op:setop', 'op:merge',
            'op:pickle', 'op:setstate', 'op:fail', 'faults_injected', 'height>=3', 'separator_refs',
            'jar_sweeps', 'all_dead_after_drop']


# --------------------------------------------------------------------------
# tracked objects

REG = []        # weak references to every tracked object created since reset()


class TK(K):
    """Tracked, instrumented key (orders like the int v)."""
    __slots__ = ()

    def __init__(self, v):
        self.v = v
        REG.append(weakref.ref(self))

    def __reduce__(self):
        return (TK, (self.v,))

    def __repr__(self):
        return 'TK(%r)' % (self.v,)


class TV:
    """Tracked value."""
    __slots__ = ('v', '__weakref__')

    def __init__(self, v):
        self.v = v
        REG.append(weakref.ref(self))

    def __eq__(self, o):
        return isinstance(o, TV) and self.v == o.v

    def __ne__(self, o):
        return not self.__eq__(o)

    def __lt__(self, o):
        return self.v < o.v

    def __le__(self, o):
        return self.v <= o.v

    def __gt__(self, o):
        return self.v > o.v

    def __ge__(self, o):
        return self.v >= o.v

    def __hash__(self):
        return hash(self.v)

    def __reduce__(self):
        return (TV, (self.v,))

    def __repr__(self):
        return 'TV(%r)' % (self.v,)


def reset():
    del REG[:]


def live():
    out = []
    for r in REG:
        o = r()
        if o is not None:
            out.append(o)
    return out


def norm(x):
    if isinstance(x, K):
        return ('K', x.v)
    if isinstance(x, TV):
        return ('V', x.v)
    if isinstance(x, (list, tuple)):
        return tuple(norm(i) for i in x)
    return x


class Dom:
    """Key / value domains of a family: positions -> fresh objects."""

    def __init__(self, fam, n):
        self.fam, self.n = fam, n
        self.keys, self.grid = F.universe(fam, n, 'centred')     # ints (or bytes)
        self.kobj = fam[0] == 'O'
        self.vobj = fam[1] == 'O'
        self.vals = F.values(fam)
        self.kpos = [self.grid.index(k) for k in self.keys]       # positions of universe keys
        self.gaps = [p for p in range(len(self.grid)) if p not in self.kpos]

    def key(self, p):
        return TK(self.grid[p]) if self.kobj else self.grid[p]

    def val(self, j):
        return TV(j) if self.vobj else self.vals[j % 2]


# --------------------------------------------------------------------------
# census

def census(roots, tree_types, leaf_types):
    """-> (occ {id: slots owning a reference}, objs {id: object}, stats)"""
    occ = collections.Counter()
    objs = {}
    stats = collections.Counter()

    def note(o, n=1):
        if isinstance(o, (TK, TV)) or type(o) in tree_types or type(o) in leaf_types:
            occ[id(o)] += n
            objs[id(o)] = o

    visited = set()

    def leaf(b):
        if id(b) in visited:        # shared between two roots (shallow copies): contents once
            return
        visited.add(id(b))
        st = b.__getstate__()
        for x in st[0]:
            note(x)
        if len(st) > 1:
            note(st[1])
            stats['next_links'] += 1

    def tree(n):
        if id(n) in visited:
            return
        visited.add(id(n))
        st = n.__getstate__()
        if st is None:
            return
        if len(st) == 1:
            b = n._firstbucket
            note(b, 2)          # child slot + firstbucket slot
            leaf(b)
            return
        data, first = st
        for i, x in enumerate(data):
            if i & 1:
                note(x)
                stats['separator_refs'] += 1
            else:
                note(x)
                if type(x) in tree_types:
                    tree(x)
                else:
                    leaf(x)
        note(first)

    try:
        for r in roots:
            if type(r) in tree_types:
                tree(r)
            elif type(r) in leaf_types:
                leaf(r)
            else:
                raise TypeError(r)
    finally:
        # the recursive closures form a reference cycle with their cells; break it so that
        # nothing outlives this call (the garbage collector is off during a job)
        tree = leaf = note = None
    for r in roots:         # roots are held by the harness, never audited
        occ.pop(id(r), None)
        objs.pop(id(r), None)
    return occ, objs, stats


def audit(roots, ctx, extra=None, nodes=True):
    """Returns a list of problem strings.  `extra`: {id: harness-owned references}.
    nodes=False: only tracked keys / values are audited (inside a data manager the pickle cache
    and the connection own references to nodes that are none of the container's business)."""
    occ, objs, stats = census(roots, ctx.tree_types, ctx.leaf_types)
    probs = []
    ids = list(objs)
    n_audited = 0
    for i in ids:
        if not nodes and not isinstance(objs[i], (TK, TV)):
            continue
        want = occ[i] + (extra.get(i, 0) if extra else 0)
        have = sys.getrefcount(objs[i]) - 2      # the objs dict + the call argument
        n_audited += 1
        if have != want:
            probs.append('%s: refcount %d, %d slot(s) own it' % (describe(objs[i]), have, want))
    known = set(ids)
    objs.clear()
    occ.clear()
    del objs
    for o in live():
        if id(o) in known:
            continue
        if extra and id(o) in extra:
            have = sys.getrefcount(o) - 3       # the live() list, the loop variable, the call argument
            n_audited += 1
            if have != extra[id(o)]:
                probs.append('%r (element of an operand): refcount %d, %d operand slot(s) own it'
                             % (o, have, extra[id(o)]))
            continue
        probs.append('%r is alive but no container slot refers to it (%d reference(s))'
                     % (o, sys.getrefcount(o) - 3))
    stats['audited_objects'] = n_audited
    return probs, stats


def excess_map(roots, tree_types, leaf_types, tracked):
    """{id: (description, refcount - slots owning it)} for every node below the roots and every
    key / value object of the `tracked` classes.  Whoever else holds references (the harness'
    key universe, a model) holds the same ones before and after an operation, so the excess of an
    object must not change across an operation - that is the leak / double-release oracle used
    where the harness cannot avoid strong references (C14)."""
    occ = collections.Counter()
    objs = {}

    def walk():
        # all traversal temporaries live (and die) in this frame, so that none of them is
        # counted when the reference counts are read below
        visited = set()

        def note(o, n=1):
            if isinstance(o, tracked) or type(o) in tree_types or type(o) in leaf_types:
                occ[id(o)] += n
                objs[id(o)] = o
        stack = [r for r in roots]
        while stack:
            n = stack.pop()
            if id(n) in visited:
                continue
            visited.add(id(n))
            st = n.__getstate__()
            if st is None:
                continue
            if type(n) in leaf_types:
                for x in st[0]:
                    note(x)
                if len(st) > 1:
                    note(st[1])
                continue
            if len(st) == 1:
                b = n._firstbucket
                note(b, 2)
                stack.append(b)
                continue
            data, first = st
            for i, x in enumerate(data):
                note(x)
                if not (i & 1):
                    stack.append(x)
            note(first)
    walk()
    walk = None
    out = {}
    rootids = {id(r) for r in roots}
    for i in list(objs):
        if i in rootids:
            continue
        desc = repr(objs[i]) if isinstance(objs[i], tracked) else describe(objs[i])
        out[i] = (desc, sys.getrefcount(objs[i]) - 2 - occ[i])
    objs.clear()
    return out


def describe(o):
    if isinstance(o, (TK, TV)):
        return repr(o)
    try:
        return '%s%r' % (type(o).__name__, norm(tuple(o.keys()))[:4])
    except Exception:       # noqa
        return type(o).__name__


class Ctx16:
    def __init__(self, fam, kind, sizes, n):
        self.fam, self.kind, self.sizes = fam, kind, sizes
        self.cls = F.cls(fam, kind, 'c')
        self.ismap = F.is_map(kind)
        self.istree = F.is_tree(kind)
        self.tree_type = F.cls(fam, F.tree_kind_of(kind), 'c')
        self.leaf_type = F.cls(fam, F.leaf_kind_of(kind), 'c')
        self.tree_types = (F.cls(fam, 'BTree', 'c'), F.cls(fam, 'TreeSet', 'c'))
        self.leaf_types = (F.cls(fam, 'Bucket', 'c'), F.cls(fam, 'Set', 'c'))
        self.dom = Dom(fam, n)
        self.mod = F.module(fam)
        self.operands = []      # plain-iterable operands of the running operation (see hold())
        if sizes:
            F.set_sizes(fam, *sizes)

    def new(self):
        return self.cls()

    def hold(self, lst):
        """Keep a plain list operand alive until the audit: its elements are then owned by exactly
        one list slot each (or one tuple slot for (key, value) pairs), which the ledger checks - a
        reference the operation took from or gave to an OPERAND object shows there (the temporary
        list would otherwise die with the evidence)."""
        self.operands.append(lst)
        return lst


# --------------------------------------------------------------------------
# operations: op = tuple of literals over key POSITIONS and value indices

def apply(ctx, t, op):
    """Mutating alphabet used for histories.  Returns nothing."""
    d = ctx.dom
    name = op[0]
    try:
        if name == 'set':
            t[d.key(op[1])] = d.val(op[2])
        elif name == 'del':
            del t[d.key(op[1])]
        elif name == 'add':
            t.add(d.key(op[1]))
        elif name == 'remove':
            t.remove(d.key(op[1]))
        elif name == 'popmin':
            t.popitem() if ctx.ismap else t.pop()
        elif name == 'clear':
            t.clear()
        else:
            raise ValueError(op)
    except (KeyError, ValueError):
        pass


def alphabet(ctx, thin_keys=None):
    d = ctx.dom
    ops = []
    if thin_keys is not None:
        return [('del' if ctx.ismap else 'remove', p) for p in d.kpos]
    for i, p in enumerate(d.kpos):
        ops.append(('set', p, i % 2) if ctx.ismap else ('add', p))
    for p in d.kpos:
        ops.append(('del', p) if ctx.ismap else ('remove', p))
    ops.append(('popmin',))
    ops.append(('clear',))
    return ops


def rebuild(ctx, hist):
    t = ctx.new()
    for op in hist:
        apply(ctx, t, op)
    return t


def second(ctx, shift=0):
    """A second container of the same kind holding EQUAL BUT DISTINCT objects for every second
    universe key plus one gap key."""
    d = ctx.dom
    b = ctx.new()
    for i, p in enumerate(d.kpos[shift::2] + d.gaps[-1:]):
        if ctx.ismap:
            b[d.key(p)] = d.val(i + 1)
        else:
            b.add(d.key(p))
    return b


def outcome(fn):
    """Run fn; return ('ok', normalised) / ('exc', name) WITHOUT keeping the result or the
    exception (and its traceback frames) alive."""
    try:
        r = fn()
        r = ('ok', norm(r) if not hasattr(r, '_p_oid') else '<container>')
    except CmpFault:
        r = ('exc', 'CmpFault')
    except Exception as e:      # noqa
        r = ('exc', type(e).__name__)
    return r


def catalogue(ctx, present):
    """-> list of (name, tag, fn(t) -> anything).  `present`: positions stored in t.  Functions
    create every key / value object they need afresh and return nothing that must stay alive."""
    d = ctx.dom
    ismap, tree = ctx.ismap, ctx.istree
    absent = [p for p in range(len(d.grid)) if p not in present]
    ops = []
    mod = ctx.mod

    def add(name, tag, fn):
        ops.append((name, tag, fn))

    K_ = d.key
    V_ = d.val
    # ---- mutators
    for p in absent:
        if ismap:
            add('setitem-new(%d)' % p, 'mutate', lambda t, p=p: t.__setitem__(K_(p), V_(0)))
        else:
            add('add-new(%d)' % p, 'mutate', lambda t, p=p: t.add(K_(p)))
    for p in present:
        if ismap:
            add('replace(%d)' % p, 'mutate', lambda t, p=p: t.__setitem__(K_(p), V_(5)))
            add('delitem(%d)' % p, 'mutate', lambda t, p=p: t.__delitem__(K_(p)))
            add('pop(%d)' % p, 'mutate', lambda t, p=p: t.pop(K_(p)))
            add('setdefault-old(%d)' % p, 'mutate', lambda t, p=p: t.setdefault(K_(p), V_(6)))
        else:
            add('remove(%d)' % p, 'mutate', lambda t, p=p: t.remove(K_(p)))
            add('discard(%d)' % p, 'mutate', lambda t, p=p: t.discard(K_(p)))
            add('add-old(%d)' % p, 'mutate', lambda t, p=p: t.add(K_(p)))
    a0, a1 = absent[0], absent[-1]
    if ismap:
        add('setdefault-new', 'mutate', lambda t: t.setdefault(K_(a0), V_(7)))
        add('pop-absent-default', 'mutate', lambda t: t.pop(K_(a0), V_(8)))
        add('pop-absent', 'fail', lambda t: t.pop(K_(a0)))
        add('delitem-absent', 'fail', lambda t: t.__delitem__(K_(a1)))
        add('popitem', 'mutate', lambda t: t.popitem())
        if ctx.kind == 'BTree':
            add('insert-new', 'mutate', lambda t: t.insert(K_(a1), V_(9)))
            if present:
                add('insert-old', 'mutate', lambda t: t.insert(K_(present[0]), V_(9)))
        add('update(pairs)', 'mutate',
            lambda t: t.update(ctx.hold([(K_(p), V_(i)) for i, p in enumerate(reversed(d.kpos))])))

        class FreshPairs:
            # a mapping-like source whose items() hands out pairs nobody else refers to: the pair
            # is the sole owner of its key and value while update() stores them
            def items(self):
                return ((K_(p), V_(i + 4)) for i, p in enumerate(reversed(d.kpos)))
        add('update(fresh-pairs)', 'mutate', lambda t: t.update(FreshPairs()))
        add('update(dict)', 'mutate', lambda t: t.update({K_(p): V_(3) for p in d.kpos[::2]}))
        add('update(container)', 'mutate', lambda t: t.update(second(ctx)))
    else:
        add('remove-absent', 'fail', lambda t: t.remove(K_(a0)))
        add('discard-absent', 'mutate', lambda t: t.discard(K_(a1)))
        add('pop', 'mutate', lambda t: t.pop())
        add('update(list)', 'mutate', lambda t: t.update(ctx.hold([K_(p) for p in reversed(d.kpos)])))
        add('update(container)', 'mutate', lambda t: t.update(second(ctx)))
        for nm in ('__ior__', '__iand__', '__isub__', '__ixor__'):
            add(nm + '(list)', 'mutate',
                lambda t, nm=nm: getattr(t, nm)(ctx.hold([K_(p) for p in d.kpos[1::2]])) and None)
            add(nm + '(list-with-duplicates)', 'mutate',
                lambda t, nm=nm: getattr(t, nm)(ctx.hold(
                    [K_(p) for p in (d.kpos[-1], d.kpos[0], d.kpos[-1], d.gaps[0], d.kpos[0], d.gaps[0])])) and None)
            add(nm + '(container)', 'mutate', lambda t, nm=nm: getattr(t, nm)(second(ctx)) and None)
    add('clear', 'mutate', lambda t: t.clear())
    # ---- reads with fresh probe objects
    probes = list(present[:1]) + list(present[-1:]) + [a0, absent[len(absent) // 2], a1]
    for p in probes:
        add('contains(%d)' % p, 'read', lambda t, p=p: K_(p) in t)
        add('minKey(%d)' % p, 'read', lambda t, p=p: t.minKey(K_(p)))
        add('maxKey(%d)' % p, 'read', lambda t, p=p: t.maxKey(K_(p)))
        if ismap:
            add('get(%d)' % p, 'read', lambda t, p=p: t.get(K_(p), None))
            add('getitem(%d)' % p, 'read', lambda t, p=p: t[K_(p)])
    add('minKey()', 'read', lambda t: t.minKey())
    add('maxKey()', 'read', lambda t: t.maxKey())
    add('len', 'read', lambda t: len(t))
    for lo in (None, probes[0], a0):
        for hi in (None, probes[-1], absent[len(absent) // 2]):
            add('keys(%r,%r)' % (lo, hi), 'read',
                lambda t, lo=lo, hi=hi: list(t.keys(None if lo is None else K_(lo),
                                                    None if hi is None else K_(hi))))
    add('keys(excl)', 'read', lambda t: list(t.keys(K_(probes[0]), K_(probes[-1]), True, True)))
    # every position of the grid as an (inclusive / exclusive) upper and lower bound: the range
    # search repairs that step to a neighbouring leaf take and give back bucket references
    allpos = list(range(len(d.grid)))
    for p in allpos:
        add('maxKey@%d' % p, 'read', lambda t, p=p: t.maxKey(K_(p)))
        add('minKey@%d' % p, 'read', lambda t, p=p: t.minKey(K_(p)))
        add('keys(max=%d,excl)' % p, 'read', lambda t, p=p: list(t.keys(None, K_(p), False, True)))
        add('keys(min=%d,excl)' % p, 'read', lambda t, p=p: list(t.keys(K_(p), None, True, False)))
        add('keys(max=%d)' % p, 'read', lambda t, p=p: list(t.keys(None, K_(p))))
    add('keys(excl-omitted)', 'read', lambda t: list(t.keys(None, None, True, True)))
    # lazy ranges that are only truth-tested / measured, for every pair of bounds
    bpos = [None] + allpos
    for lo in bpos:
        for hi in bpos:
            add('bool(keys(%r,%r))' % (lo, hi), 'iter',
                lambda t, lo=lo, hi=hi: bool(t.keys(None if lo is None else K_(lo),
                                                    None if hi is None else K_(hi))))
    for lo in bpos[::2]:
        for hi in bpos[1::2]:
            add('len(keys(%r,%r))' % (lo, hi), 'iter',
                lambda t, lo=lo, hi=hi: len(t.keys(None if lo is None else K_(lo),
                                                   None if hi is None else K_(hi))))
    if ismap:
        add('items()', 'read', lambda t: list(t.items()))
        add('values(min)', 'read', lambda t: list(t.values(K_(probes[0]))))
        add('byValue', 'read', lambda t: t.byValue(V_(0)))

    # lazy sequences: index both ends, then drop
    def seq_probe(t, mk):
        s = mk(t)
        n = len(s)
        out = [n]
        if n:
            out += [s[0], s[-1], s[n // 2]]
        return out
    add('keys-seq', 'iter', lambda t: seq_probe(t, lambda t: t.keys()))
    if ismap:
        add('items-seq', 'iter', lambda t: seq_probe(t, lambda t: t.items()))
        add('values-seq', 'iter', lambda t: seq_probe(t, lambda t: t.values()))

    # iterators abandoned after p steps (cursor-held references must be released)
    def abandon(t, opener, p):
        it = opener(t)
        out = []
        for _ in range(p):
            try:
                out.append(next(it))
            except StopIteration:
                break
        return out
    openers = [('iter', iter)]
    if ismap:
        openers += [('iteritems', lambda t: t.iteritems()), ('itervalues', lambda t: t.itervalues()),
                    ('iterkeys(min)', lambda t: t.iterkeys(K_(probes[0])))]
    elif hasattr(ctx.cls, 'iterkeys'):
        openers += [('iterkeys', lambda t: t.iterkeys())]
    for oname, op_ in openers:
        for p in range(len(present) + 2):
            add('%s abandon@%d' % (oname, p), 'iter', lambda t, o=op_, p=p: abandon(t, o, p))

    # mutate under a live iterator, then drop it
    def mutate_under_iter(t, step):
        it = iter(t)
        out = []
        try:
            for _ in range(step):
                out.append(next(it))
            if ismap:
                t[K_(a0)] = V_(2)
            else:
                t.add(K_(a0))
            out.append(next(it))
        except (StopIteration, RuntimeError):
            pass
        return out
    for step in (0, 1, 2):
        add('mutate-under-iter@%d' % step, 'iter', lambda t, s=step: mutate_under_iter(t, s))

    # ---- set algebra: results are containers -> audited together with t, then dropped
    def setop(fname, order):
        fn = getattr(mod, fname)

        def run(t):
            b = second(ctx, 1)
            return ('containers', [fn(t, b) if order == 0 else fn(b, t), b])
        return run
    for fname in ('union', 'intersection', 'difference'):
        add(fname + '(t,b)', 'setop', setop(fname, 0))
        add(fname + '(b,t)', 'setop', setop(fname, 1))
    add('t|b', 'setop', lambda t: (lambda b: ('containers', [t | b, b]))(second(ctx)))
    add('t&b', 'setop', lambda t: (lambda b: ('containers', [t & b, b]))(second(ctx)))
    add('t-b', 'setop', lambda t: (lambda b: ('containers', [t - b, b]))(second(ctx)))
    add('union(t,None)', 'setop', lambda t: ('containers', [getattr(mod, 'union')(t, None)]))
    # plain iterables as operands: unsorted, with a key twice (fresh objects for every element)
    def dups():
        ps = [d.kpos[-1], d.kpos[0], d.kpos[-1], d.gaps[0], d.kpos[0], d.gaps[0]]
        return ctx.hold([K_(p) for p in ps])
    for fname in ('union', 'intersection', 'difference'):
        fn_ = getattr(mod, fname)
        add(fname + '(t,list-with-duplicates)', 'setop', lambda t, fn_=fn_: ('containers', [fn_(t, dups())]))
        if fname != 'difference':
            add(fname + '(list-with-duplicates,t)', 'setop', lambda t, fn_=fn_: ('containers', [fn_(dups(), t)]))
    add('union(list,list)', 'setop', lambda t: ('containers', [mod.union(dups(), dups())]))
    add('t|list-with-duplicates', 'setop', lambda t: ('containers', [t | dups()]))
    if F.has_weighted(ctx.fam):
        wu, wi = mod.weightedUnion, mod.weightedIntersection
        add('weightedUnion', 'setop', lambda t: (lambda b: ('containers', [wu(t, b)[1], b]))(second(ctx)))
        add('weightedIntersection', 'setop',
            lambda t: (lambda b: ('containers', [wi(b, t, 1, 1)[1], b]))(second(ctx)))
    if F.has_multiunion(ctx.fam):
        add('multiunion', 'setop', lambda t: (lambda b: ('containers', [mod.multiunion([t, b]), b]))(second(ctx)))
    if not ismap:
        add('isdisjoint(container)', 'read', lambda t: t.isdisjoint(second(ctx)))
        add('isdisjoint(list)', 'read', lambda t: t.isdisjoint([K_(a0), K_(probes[0])]))

    # ---- pickle / copy / setstate: copies are containers -> audited, then dropped
    for proto in (1, 2, 5):
        add('pickle-%d' % proto, 'pickle',
            lambda t, proto=proto: ('containers', [pickle.loads(pickle.dumps(t, proto))]))
    add('copy', 'pickle', lambda t: ('containers', [copy.copy(t)]))
    add('deepcopy', 'pickle', lambda t: ('containers', [copy.deepcopy(t)]))

    def restate(t):
        n = ctx.new()
        st = t.__getstate__()
        n.__setstate__(st)
        del st
        return ('containers', [n])
    add('setstate(getstate)', 'setstate', restate)

    def setstate_twice(t):
        # __setstate__ on a non-empty container must release what it held
        n = second(ctx)
        n.__setstate__(t.__getstate__())
        return ('containers', [n])
    add('setstate-over-contents', 'setstate', setstate_twice)
    # ---- failing calls
    bad_k = object() if d.kobj else 'x'
    if ismap:
        add('setitem(badkey)', 'fail', lambda t: t.__setitem__(bad_k, V_(0)))
        add('get(badkey)', 'fail', lambda t: t.get(bad_k))
        add('update([(k,v),(badkey,v)])', 'fail', lambda t: t.update([(K_(a0), V_(0)), (bad_k, V_(1))]))
        add('update([1])', 'fail', lambda t: t.update([(K_(a0), V_(0)), 1]))
        if not d.vobj:
            add('setitem(new,badvalue)', 'fail', lambda t: t.__setitem__(K_(a0), 'x'))
            add('setitem(old,badvalue)', 'fail', lambda t: t.__setitem__(K_(probes[0]), 'x'))
            add('update([(k,badvalue)])', 'fail', lambda t: t.update([(K_(a0), 1), (K_(a1), 'x')]))
    else:
        add('add(badkey)', 'fail', lambda t: t.add(bad_k))
        add('update([k,badkey])', 'fail', lambda t: t.update([K_(a0), bad_k]))
        add('ior([k,badkey])', 'fail', lambda t: t.__ior__([K_(a0), bad_k]) and None)
    add('minKey(badkey)', 'fail', lambda t: t.minKey(bad_k))
    add('keys(max=badkey)', 'fail', lambda t: list(t.keys(None, bad_k)))
    add('union(t,5)', 'fail', lambda t: mod.union(t, 5))
    return ops


def leaf_extras(ctx):
    """Operations that do not depend on the state of t: conflict merges and malformed states
    (leaf kinds; and trees through their single-bucket state form)."""
    d = ctx.dom
    ismap = ctx.ismap
    K_, V_ = d.key, d.val
    leafcls = ctx.leaf_type
    ops = []
    kp = d.kpos

    def flat(ps, vbase=0):
        out = []
        for i, p in enumerate(ps):
            out.append(K_(p))
            if ismap:
                out.append(V_(vbase + i))
        return tuple(out)

    triples = [
        ('merge-inserts', kp[1:3], kp[0:3], kp[1:4]),
        ('merge-delete+insert', kp[0:3], kp[0:2], kp[0:4]),
        ('merge-conflict-same-insert', kp[0:2], kp[0:3], kp[0:3]),
        ('merge-both-delete', kp[0:4], kp[1:4], kp[1:4]),
        ('merge-delete-first', kp[0:3], kp[1:3], kp[0:4]),
        ('merge-empty-side', kp[0:2], (), kp[0:3]),
    ]
    for name, o, c, n in triples:
        for link in ('none', 'same', 'differs'):
            def run(t, o=o, c=c, n=n, link=link):
                inst = leafcls()
                nb = leafcls()
                nb2 = leafcls()
                base = sys.getrefcount(nb), sys.getrefcount(nb2)
                so, sc, sn = (flat(o),), (flat(c),), (flat(n),)
                if link != 'none':
                    so, sc = so + (nb,), sc + (nb,)
                    sn = sn + ((nb,) if link == 'same' else (nb2,))
                try:
                    r = inst._p_resolveConflict(so, sc, sn)
                    out = ('merged', norm(r[0]))
                    del r
                except CmpFault:
                    out = 'CmpFault'
                except Exception as e:      # noqa
                    out = type(e).__name__
                del so, sc, sn, inst
                after = sys.getrefcount(nb), sys.getrefcount(nb2)
                if after != base:
                    return ('problem', 'successor bucket refcount %r -> %r after %s (%s)'
                            % (base, after, name, out))
                return out
            ops.append(('%s/%s' % (name, link), 'merge', run))

    # malformed / failing states: the k-th item cannot be converted
    def bad_state(t, k, what):
        inst = leafcls()
        items = list(flat(kp[:3]))
        items[k] = what
        try:
            inst.__setstate__((tuple(items),))
            out = 'ok'
        except Exception as e:      # noqa
            out = type(e).__name__
        del items
        if out == 'ok':
            return ('containers', [inst])
        return out
    bads = []
    if not d.kobj:
        bads += [(0, 'x'), (2 if ismap else 1, 'x'), (4 if ismap else 2, 'x')]
    if ismap and not d.vobj:
        bads += [(1, 'x'), (3, 'x'), (5, 'x')]
    for k, what in bads:
        ops.append(('setstate-bad-item@%d' % k, 'setstate', lambda t, k=k, w=what: bad_state(t, k, w)))

    def short_state(t):
        inst = leafcls()
        try:
            inst.__setstate__((flat(kp[:3])[:-1] if ismap else 5,))
            return 'ok'
        except Exception as e:      # noqa
            return type(e).__name__
    ops.append(('setstate-odd-length', 'setstate', short_state))
    return ops


# --------------------------------------------------------------------------

def run_one(ctx, hist, fn, rep, sig, case, guards, fault=None):
    """Rebuild the state, run one operation (optionally with a comparison fault), audit."""
    reset()
    del ctx.operands[:]
    t = rebuild(ctx, hist)
    held = None
    if fault is None:
        kkey.arm()
    else:
        kkey.arm(fail_at=fault)
    try:
        r = fn(t)
        if isinstance(r, tuple) and len(r) == 2 and r[0] == 'containers':
            held = r[1]
            out = ('ok', '<containers>')
        elif isinstance(r, tuple) and len(r) == 2 and r[0] == 'problem':
            out = ('problem', r[1])
        else:
            out = ('ok', norm(r) if not hasattr(r, '_p_oid') else '<container>')
        del r
    except CmpFault:
        out = ('exc', 'CmpFault')
    except Exception as e:      # noqa
        out = ('exc', type(e).__name__)
    cnt = kkey.disarm()
    fired = kkey.S.fault_fired
    if out[0] == 'problem':
        rep.add(dict(sig, cls='successor-refcount'), case, out[1])
    roots = [t] + [h for h in (held or []) if h is not None and h is not t]
    extra = operand_owners(ctx.operands)
    if extra:
        guards['operand_elements_audited'] += len(extra)
    try:
        probs, stats = audit(roots, ctx, extra=extra)
    except Exception as e:      # noqa
        probs, stats = ['census failed: %r' % (e,)], {}
    guards['audits'] += 1
    for k, v in stats.items():
        guards[k] += v
    if probs:
        rep.add(dict(sig, cls='ledger'), case,
                '%s -> %r; with results alive: %s' % (case.get('op'), out[:2], '; '.join(probs[:4])))
    elif held:
        del roots
        del held
        probs, stats = audit([t], ctx, extra=extra)
        if probs:
            rep.add(dict(sig, cls='ledger-after-drop'), case,
                    '%s: after dropping the results: %s' % (case.get('op'), '; '.join(probs[:4])))
    roots = held = None
    del t
    extra = None
    del ctx.operands[:]
    left = live()
    if left:
        rep.add(dict(sig, cls='alive-after-drop'), case,
                '%s: after dropping every container these objects are still alive: %r'
                % (case.get('op'), [(repr(o), sys.getrefcount(o) - 2) for o in left[:6]]))
    else:
        guards['all_dead_after_drop'] += 1
    del left
    return out, cnt, fired


def operand_owners(operands):
    """{id(object): slots of the held operand lists owning it} for tracked keys / values."""
    extra = collections.Counter()
    for lst in operands:
        for x in lst:
            if isinstance(x, tuple):
                for y in x:
                    if isinstance(y, (TK, TV)):
                        extra[id(y)] += 1
            elif isinstance(x, (TK, TV)):
                extra[id(x)] += 1
    return extra


def enumerate_states(ctx, thin):
    """BFS over canonical shapes; returns [(hist, present positions, canon)]."""
    d = ctx.dom
    prefix = ()
    if thin:
        order = list(range(len(d.kpos)))
        if thin == 'desc':
            order.reverse()
        prefix = tuple((('set', d.kpos[i], i % 2) if ctx.ismap else ('add', d.kpos[i])) for i in order)
    alpha = alphabet(ctx, thin_keys=thin)

    def canon(t):
        return norm(C.dump(t, ctx.istree))
    reset()
    t0 = rebuild(ctx, prefix)
    c0 = canon(t0)
    seen = {c0}
    states = [(prefix, c0)]
    frontier = collections.deque([prefix])
    while frontier:
        hist = frontier.popleft()
        for op in alpha:
            reset()
            t = rebuild(ctx, hist + (op,))
            c = canon(t)
            if c not in seen:
                seen.add(c)
                states.append((hist + (op,), c))
                frontier.append(hist + (op,))
            del t
    out = []
    for hist, c in states:
        reset()
        t = rebuild(ctx, hist)
        ks = list(t.keys())
        present = sorted(d.grid.index(k.v if isinstance(k, K) else k) for k in ks)
        del ks, t
        out.append((hist, present, c))
    reset()
    return out


def job(fam, kind, sizes, n, thin, faults, shard=(0, 1)):
    gc.disable()
    ctx = Ctx16(fam, kind, sizes, n)
    rep = Reporter('C16')
    guards = collections.Counter()
    outcomes = collections.Counter()
    states = enumerate_states(ctx, thin)
    for hist, present, c in states:
        if ctx.istree:
            st = C.shape_stats(c)
            if st['height'] >= 3:
                guards['height>=3'] += 1
            if st['stale_sep']:
                guards['stale_separator_states'] += 1
    mine = states[shard[0]::shard[1]]
    base = dict(fam=fam, kind=kind, sizes=sizes, n=n, thin=thin, faults=faults, shard=list(shard),
                flavour='asan')
    evaluations = distinct = 0
    sample = None
    extras = leaf_extras(ctx)
    for si, (hist, present, c) in enumerate(mine):
        if rep.full:
            break
        cat = catalogue(ctx, present)
        if si == 0 and shard[0] == 0:
            cat = cat + extras      # state-independent operations: once per job
        stale = ctx.istree and C.shape_stats(c)['stale_sep'] if ctx.istree else False
        reset()
        lone = lone_inline(rebuild(ctx, hist), ctx.istree)
        for name, tag, fn in cat:
            if rep.full:
                break
            if lone and tag == 'pickle' and name != 'copy':
                # finding F12 (C06): a plain pickle of such a tree duplicates the embedded leaf;
                # the copy is not a well-formed tree, so its ledger is not judged
                guards['skipped_pickle_of_F12_shapes'] += 1
                continue
            slot.set(('C16', fam, kind, sizes, hist, name, None))
            sig = dict(fam=fam, kind=kind, site=name.split('(')[0].split(' ')[0].split('@')[0], tag=tag)
            case = dict(base, history=[list(o) for o in hist], op=name, fault=None)
            out, cnt, _ = run_one(ctx, hist, fn, rep, dict(sig, dev='none'), case, guards)
            evaluations += 1
            distinct += 1
            guards['op:' + tag] += 1
            if stale:
                guards['stale_separator_alive'] += 1
            outcomes['%s/%s' % (tag, out[0] if out[0] != 'exc' else out[1])] += 1
            if faults and ctx.dom.kobj and cnt and tag not in ('pickle',):
                for nth in range(cnt):
                    if rep.full:
                        break
                    slot.set(('C16', fam, kind, sizes, hist, name, nth))
                    case = dict(base, history=[list(o) for o in hist], op=name, fault=nth, of=cnt)
                    out2, _, fired = run_one(ctx, hist, fn, rep, dict(sig, dev='fault'), case, guards,
                                             fault=nth)
                    evaluations += 1
                    distinct += 1
                    if fired:
                        guards['faults_injected'] += 1
                    if sample is None and tag == 'mutate' and nth >= 2 and len(hist) >= 3:
                        sample = dict(case, outcome=out2)
    gc.enable()
    return dict(evaluations=evaluations, distinct=distinct, exhaustive=not rep.full, guards=dict(guards),
                outcomes=dict(outcomes), violations=rep.all(), sample=sample, n_states=len(mine))


# --------------------------------------------------------------------------
# data-manager variant: commit, sweep, reload, abort

def jar_job(fam, kind, sizes, n):
    gc.disable()
    ctx = Ctx16(fam, kind, sizes, n)
    d = ctx.dom
    rep = Reporter('C16')
    guards = collections.Counter()
    states = enumerate_states(ctx, None)
    base = dict(fam=fam, kind=kind, sizes=sizes, n=n, jar=True, flavour='asan')
    evaluations = 0
    sample = None
    K_, V_ = d.key, d.val

    def alive_desc():
        return [(repr(o), sys.getrefcount(o) - 2) for o in live()[:6]]

    scripts = []
    for hist, present, c in states:
        absent = [p for p in range(len(d.grid)) if p not in present]
        muts = []
        if ctx.ismap:
            muts.append(('setitem-new', lambda t: t.__setitem__(K_(absent[0]), V_(1))))
            if present:
                muts.append(('replace', lambda t, p=present[-1]: t.__setitem__(K_(p), V_(4))))
                muts.append(('delitem', lambda t, p=present[0]: t.__delitem__(K_(p))))
        else:
            muts.append(('add-new', lambda t: t.add(K_(absent[0]))))
            if present:
                muts.append(('remove', lambda t, p=present[0]: t.remove(K_(p))))
        muts.append(('clear', lambda t: t.clear()))
        muts.append(('read-all', lambda t: list(t.keys()) and None))
        for mname, mfn in muts:
            for ending in ('commit', 'abort', 'drop'):
                scripts.append((hist, present, mname, mfn, ending))
    for hist, present, mname, mfn, ending in scripts:
        if rep.full:
            break
        slot.set(('C16jar', fam, kind, sizes, hist, mname, ending))
        sig = dict(fam=fam, kind=kind, site=mname, tag='jar', dev=ending)
        case = dict(base, history=[list(o) for o in hist], op=mname, ending=ending)
        reset()
        st = M.Storage()
        conn = M.Connection(st)
        t = ctx.new()
        conn.add(t)
        for op in hist:
            apply(ctx, t, op)
        conn.commit()
        evaluations += 1
        # 1. a sweep of a committed tree releases every key and value of every ghosted node
        conn.sweep()
        guards['jar_sweeps'] += 1
        # the root of a leaf kind / an embedded single bucket may legitimately stay loaded only
        # if the root itself could not be ghostified (it can: it is stored and unchanged)
        if live():
            rep.add(dict(sig, cls='alive-after-sweep'), case,
                    'after commit + full sweep these objects are still alive: %r' % (alive_desc(),))
            continue
        # 2. reload by use, change something, audit with the cache's own references known
        out = outcome(lambda: mfn(t))
        probs, stats = audit([t], ctx, nodes=False)
        guards['audits'] += 1
        for k, v in stats.items():
            guards[k] += v
        if probs:
            rep.add(dict(sig, cls='ledger'), case, '%s in a data manager -> %r: %s'
                    % (mname, out[:2], '; '.join(probs[:4])))
            continue
        # 3. ending
        if ending == 'commit':
            conn.commit()
            conn.sweep()
        elif ending == 'abort':
            conn.abort()        # invalidates the changed nodes: their contents must be released
            conn.sweep()
        if ending != 'drop' and live():
            rep.add(dict(sig, cls='alive-after-' + ending), case,
                    'after %s + sweep these objects are still alive: %r' % (ending, alive_desc()))
            continue
        del t
        conn.cache = None
        conn.registered = []
        del conn
        gc.collect()        # connection <-> pickle cache <-> objects form cycles
        if live():
            rep.add(dict(sig, cls='alive-after-drop'), case,
                    'after dropping the connection these objects are still alive: %r' % (alive_desc(),))
        else:
            guards['all_dead_after_drop'] += 1
        if sample is None and len(hist) >= 3:
            sample = case
    gc.enable()
    return dict(evaluations=evaluations, distinct=evaluations, exhaustive=not rep.full,
                guards=dict(guards), outcomes={}, violations=rep.all(), sample=sample)


# --------------------------------------------------------------------------

def configs(tier):
    """(fam, kind, sizes, n, thin, faults, weight)"""
    out = []
    deep = ['OO', 'OI', 'IO'] if tier == 'quick' else OBJ_FAMS
    for fam in OBJ_FAMS:
        for kind in F.KINDS:
            tree = kind in F.TREE_KINDS
            if fam[1] != 'O' and fam[0] != 'O':
                continue
            if not tree:
                out.append((fam, kind, None, 4 if fam in deep else 3, None, True, 10))
                continue
            if fam in deep:
                if tier == 'quick':
                    out.append((fam, kind, (2, 2), 4, None, True, 60))
                    out.append((fam, kind, (3, 2), 4, None, True, 40))
                    out.append((fam, kind, (2, 2), 5, None, fam == 'OO' or kind == 'BTree', 560))
                    out.append((fam, kind, (2, 2), 7, 'asc', False, 60))
                else:
                    out.append((fam, kind, (2, 2), 5, None, True, 900))
                    out.append((fam, kind, (3, 2), 5, None, True, 300))
                    out.append((fam, kind, (2, 3), 5, None, True, 300))
                    out.append((fam, kind, (2, 2), 6, None, False, 900))
                    out.append((fam, kind, (2, 2), 9, 'asc', False, 600))
                    out.append((fam, kind, (2, 2), 9, 'desc', False, 600))
            else:
                out.append((fam, kind, (2, 2), 4 if tier == 'quick' else 5, None, True, 60))
    return out


def jobs(tier):
    js = []
    for fam, kind, sizes, n, thin, faults, w in configs(tier):
        m = max(1, min(8, w // 70))
        for i in range(m):
            js.append({'fn': 'job', 'weight': w // m, 'group': '%s/%s' % (fam, kind), 'flavour': 'asan',
                       'args': dict(fam=fam, kind=kind, sizes=sizes, n=n, thin=thin, faults=faults,
                                    shard=(i, m))})
    for fam in (['OO', 'IO'] if tier == 'quick' else OBJ_FAMS):
        for kind in F.KINDS:
            tree = kind in F.TREE_KINDS
            js.append({'fn': 'jar_job', 'weight': 20, 'group': 'jar/%s' % kind, 'flavour': 'asan',
                       'args': dict(fam=fam, kind=kind, sizes=(2, 2) if tree else None,
                                    n=4 if tier == 'quick' else 5)})
    return js


def replay(case):
    sizes = case.get('sizes') and tuple(case['sizes'])
    if case.get('jar'):
        r = jar_job(case['fam'], case['kind'], sizes, case['n'])
        keyf = ('history', 'op', 'ending')
    else:
        r = job(case['fam'], case['kind'], sizes, case['n'], case.get('thin'), case['faults'],
                tuple(case.get('shard', (0, 1))))
        keyf = ('history', 'op', 'fault')
    want = [case.get(k) for k in keyf]
    vs = [v for v in r['violations'] if [v['case'].get(k) for k in keyf] == want]
    return dict(violations=vs)
