"""C17 - running out of memory inside an operation is reported, not corrupting.

E3 (needs the BTREES_VERIF hook, sanitizer build): for every base state - each reachable
shape, reached by three construction routes that differ in spare capacity - and every
allocating operation, the operation is first run with the hook counting allocations and
then re-run from a rebuilt base once for every allocation index with that allocation
failing.
"""
import collections
import pickle

from .. import fam as F
from .. import ops as O
from .. import space as S
from .. import canon as C
from .. import slot
from ..models import model_for
from ..report import Reporter

LEVEL = 'fault_enumeration'
RULE = ('for every reachable shape (BFS fixed point) x construction route (shortest API history; '
        'unpickled copy = exact-fit capacities; grown to the full universe and deleted back = maximal '
        'slack) x allocating operation (insert of every absent key incl. leaf growth / leaf split / '
        'interior split / root split / first insert, multi-key update, constructor from items, '
        '__setstate__, union / intersection / difference / weighted forms, conflict merge, multiunion '
        'on both sides of the 800 switch) the allocations a are counted through the hook and the '
        'operation is re-run once for EVERY i < a with allocation i returning NULL: MemoryError must '
        'be raised, contents == before or == completed (any prefix for multi-key updates), _check / '
        'check / walk pass, a follow-up workload agrees with the model, and AddressSanitizer stays '
        'silent (a report aborts the worker and is a violation); evaluations = faulted executions')
TRUSTED = ['CPython 3.12', 'persistent 6.8', 'gcc libasan/libubsan', 'the BTREES_VERIF hook '
           '(malloc/realloc of the extension module fail on demand)', 'vt harness']
ASSUMPTIONS = ['one failing allocation per operation (pairs in thorough for multi-key updates)',
               'only allocations made by the extension module itself are failed, not CPython\'s own']


def bounds(tier):
    return ('quick: cover families, trees N=5 @2/2 and N=4 @3/2 x 3 routes, leaves N=4, other families '
            'N=3; object-keyed families OO OI OU again with MORTAL key/value objects and a reference ledger '
            '(N=4 @2/2, 3/2, leaves); stored trees whose nodes are all ghosts (II OO fs, N=5 @2/2: allocations of the '
            'loads inside every insert / delete); thorough: all families N=6 @2/2, N=5 @3/2, 2/3, pairs of failures for update')


def required_guards(tier):
    return ['faults_injected', 'memoryerror_raised', 'ledger_audits', 'jar_faults', 'jar_loads_inside_operation', 'route:api', 'route:unpickled', 'route:slack',
            'op:insert', 'op:update', 'op:setop', 'op:setstate', 'op:merge', 'op:multiunion',
            'height>=3', 'completed_or_unchanged']


def configs(tier):
    out = []
    deep = F.COVER if tier == 'quick' else F.FAMILIES
    for fam in F.FAMILIES:
        for kind in F.KINDS:
            tree = kind in F.TREE_KINDS
            if fam in deep:
                if tree:
                    if tier == 'quick':
                        out.append((fam, kind, (2, 2), 5, 20))
                        out.append((fam, kind, (3, 2), 4, 5))
                    else:
                        out.append((fam, kind, (2, 2), 6, 200))
                        out.append((fam, kind, (3, 2), 5, 30))
                        out.append((fam, kind, (2, 3), 5, 30))
                else:
                    out.append((fam, kind, None, 4 if tier == 'quick' else 5, 2))
            else:
                out.append((fam, kind, (2, 2) if tree else None, 3 if tier == 'quick' else 4, 1))
    return out


def jobs(tier):
    js = [{'fn': 'job', 'weight': w, 'group': kind, 'flavour': 'asan',
           'args': dict(fam=fam, kind=kind, sizes=sizes, n=n, tier=tier)}
          for fam, kind, sizes, n, w in configs(tier)]
    # object-keyed families once more with MORTAL key (and value) objects and the reference ledger
    for fam in (('OO', 'OI', 'OU') if tier == 'quick' else ('OO', 'OI', 'OU', 'OL', 'OQ')):
        for kind in F.KINDS:
            tree = kind in F.TREE_KINDS
            for sizes in (((2, 2), (3, 2)) if tree else (None,)):
                js.append({'fn': 'job', 'weight': 12, 'group': kind + '/ledger', 'flavour': 'asan',
                           'args': dict(fam=fam, kind=kind, sizes=sizes,
                                        n=4 if tier == 'quick' else 5, tier=tier, variant='K')})
    # stored trees whose nodes are ghosts: allocations of the loads that happen inside the operation
    for fam in (('II', 'OO', 'fs') if tier == 'quick' else F.COVER):
        for kind in F.KINDS:
            tree = kind in F.TREE_KINDS
            js.append({'fn': 'jar_job', 'weight': 30 if tree else 3, 'group': kind + '/jar', 'flavour': 'asan',
                       'args': dict(fam=fam, kind=kind, sizes=(2, 2) if tree else None, n=5 if tree else 4)})
            if tier != 'quick' and tree and fam == 'II':
                js.append({'fn': 'jar_job', 'weight': 300, 'group': kind + '/jar', 'flavour': 'asan',
                           'args': dict(fam=fam, kind=kind, sizes=(2, 2), n=6)})
    for fam in F.FAMILIES:
        if F.has_multiunion(fam):
            js.append({'fn': 'multiunion_job', 'weight': 3, 'group': 'multiunion', 'flavour': 'asan',
                       'args': dict(fam=fam)})
    return js


# --------------------------------------------------------------------------

def routes(ctx, hist, keys, vals):
    """Three ways to reach the same contents/shape with different spare capacities."""
    def api():
        t = ctx.new()
        for op in hist:
            O.fast_apply(ctx, t, op)
        return t

    def unpickled():
        return pickle.loads(pickle.dumps(api(), 2))

    def slack():
        # replay the history, then insert and delete every other key once: vectors keep the
        # capacity of the larger population (shape may differ, so this route is its own state)
        t = api()
        present = set(O.contents(ctx, t) if not ctx.is_map else [k for k, v in t.items()])
        for i, k in enumerate(keys):
            if k not in present:
                O.fast_apply(ctx, t, ('setitem', k, vals[i % 2]) if ctx.is_map else ('add', k))
        for k in keys:
            if k not in present:
                O.fast_apply(ctx, t, ('delitem', k) if ctx.is_map else ('remove', k))
        return t
    return [('api', api), ('unpickled', unpickled), ('slack', slack)]


def alloc_ops(ctx, keys, grid, vals, present):
    """(name, tag, prepare(t) -> (thunk, multi_op_or_None))"""
    ismap = ctx.is_map
    ops = []
    absent = [g for g in grid if g not in present]
    mod = F.module(ctx.fam)

    def simple(name, tag, op, multi=False):
        def prepare(t, _op=op):
            if _op[0] in ('update', 'ior', 'iand', 'isub', 'ixor'):
                arg = O.build_arg(ctx, _op[1], _op[2])
                return (lambda: O.apply_sut(ctx, t, _op, arg)), (_op if multi else None)
            return (lambda: O.apply_sut(ctx, t, _op)), None
        ops.append((name, tag, prepare))
    for i, k in enumerate(absent):
        simple('insert', 'insert', ('setitem', k, vals[i % 2]) if ismap else ('add', k))
    if ismap:
        simple('update', 'update', ('update', 'pairs', tuple((k, vals[0]) for k in grid[::2])), True)
        if absent:
            simple('setdefault', 'insert', ('setdefault', absent[0], vals[0]))
    else:
        simple('update', 'update', ('update', 'list', tuple(grid[::2])), True)
        simple('ior', 'update', ('ior', 'list', tuple(grid[1::3])), True)
        simple('iand', 'update', ('iand', 'list', tuple(keys[::2])), True)
        simple('ixor', 'update', ('ixor', 'list', tuple(grid[::3])), True)

    def with_other(name, fn):
        def prepare(t):
            other = ctx.cls()
            for i, k in enumerate(grid[::2]):
                if ismap:
                    other[k] = vals[i % 2]
                else:
                    other.add(k)
            return (lambda: O.outcome(lambda: list(fn(t, other)))), None
        ops.append((name, 'setop', prepare))
    for fname in ('union', 'intersection', 'difference'):
        with_other(fname, getattr(mod, fname))
    if F.has_weighted(ctx.fam):
        with_other('weightedUnion', lambda a, b: mod.weightedUnion(a, b)[1])
        with_other('weightedIntersection', lambda a, b: mod.weightedIntersection(a, b, 2, 3)[1])

    def ctor(t):
        items = list(t.items()) if ismap else list(t.keys())
        return (lambda: O.outcome(lambda: len(ctx.cls(items)))), None
    ops.append(('constructor', 'setstate', ctor))

    def setstate(t):
        st = t.__getstate__()
        return (lambda: O.outcome(lambda: ctx.cls().__setstate__(st))), None
    ops.append(('setstate', 'setstate', setstate))

    def setstate_over(t):
        # __setstate__ on a container that already owns vectors, with a state that does not fit
        # them.  A failed load may leave the container EMPTY (the old contents are released before
        # the new ones are taken; that is what a ghost looks like) - but sound, and never pointing
        # at freed memory.
        big = ctx.cls()
        for i, k in enumerate(grid):
            if ismap:
                big[k] = vals[i % 2]
            else:
                big.add(k)
        st = big.__getstate__()
        return (lambda: O.outcome(lambda: t.__setstate__(st))), 'allow-empty'
    ops.append(('setstate-over', 'setstate', setstate_over))

    def pickled(t):
        data = pickle.dumps(t, 2)
        return (lambda: O.outcome(lambda: len(pickle.loads(data)))), None
    ops.append(('unpickle', 'setstate', pickled))
    if not ctx.is_tree:
        def merge(t):
            st = t.__getstate__()
            flat = st[0]
            step = 2 if ismap else 1
            if len(flat) < 2 * step:
                return None, None
            old = (flat,)
            com = (flat[:-step],)           # committed deleted the last key
            extra = absent[-1:]
            if not extra or F.skey(extra[0]) < F.skey(flat[-step]):
                return None, None
            new = (flat + ((extra[0], vals[0]) if ismap else (extra[0],)),)

            def thunk():
                from BTrees.Interfaces import BTreesConflictError
                try:
                    return ('ok', ctx.cls()._p_resolveConflict(old, com, new))
                except BTreesConflictError as e:
                    return ('ok', ('conflict', e.reason))
                except Exception as e:      # noqa
                    return ('exc', type(e).__name__)
            return thunk, None
        ops.append(('merge', 'merge', merge))
    return ops


def job(fam, kind, sizes, n, tier, variant='centred'):
    import sys
    from BTrees.check import check as bcheck
    ctx = O.Ctx(fam, kind, 'c')
    hook = F.cmodule(fam)._verif_alloc
    ex = S.explorer(fam, kind, 'c', sizes, n, variant, 'C17')
    keys, grid, vals = ex.keys, ex.grid, ex.vals
    # reference ledger (variant 'K': mortal key objects - small ints are immortal in CPython 3.12 and
    # hide a reference given away or taken twice on an error exit): the harness' own references to the
    # universe's key objects are the same before and after a faulted execution, so the counts must be.
    ledger = [k for k in grid] if variant == 'K' else []
    if variant == 'K' and fam[1] == 'O':
        vals = (''.join(['val', 'ue-a']), ''.join(['val', 'ue-b']))     # mortal value objects
        ex.vals = vals
        ledger += list(vals)
    states = []
    ex.state_monitors.append(lambda e, hist, t, model, c: states.append((hist, model.copy(), c)))
    ex.run()
    rep = Reporter('C17')
    guards = collections.Counter(ex.guards)
    outcomes = collections.Counter()
    ismap, tree = ctx.is_map, ctx.is_tree
    evaluations = 0
    sample = None
    base = dict(fam=fam, kind=kind, sizes=sizes, n=n, flavour='asan', variant=variant)

    def followup(t, start):
        m = model_for(kind, start)
        for i, k in enumerate(grid):
            op = ('setitem', k, vals[i % 2]) if ismap else ('add', k)
            O.apply_sut(ctx, t, op)
            O.apply_model(m, op)
        for k in grid[::2]:
            op = ('delitem', k) if ismap else ('remove', k)
            O.apply_sut(ctx, t, op)
            O.apply_model(m, op)
        return O.contents(ctx, t) == m.contents()

    for hist, model, c in states:
        if rep.full:
            break
        before = model.contents()
        present = model.keylist()
        for rname, build in routes(ctx, hist, keys, vals):
            if rname == 'unpickled' and tree and C.has_lone_leaf_node(c):
                # a plain pickle of such a tree is damaged from the start (C06 finding F12)
                guards['route_skipped(C06:F12)'] += 1
                continue
            guards['route:' + rname] += 1
            for name, tag, prepare in alloc_ops(ctx, keys, grid, vals, present):
                t = build()
                if O.contents(ctx, t) != before:
                    raise RuntimeError('route %s does not reproduce the contents' % rname)
                thunk, multi = prepare(t)
                if thunk is None:
                    continue
                hook()                          # disarm + reset the counter
                r0 = thunk()
                cnt = hook()
                if r0[0] == 'exc':
                    outcomes['%s/unfaulted-%s' % (tag, r0[1])] += 1
                    continue
                completed = O.contents(ctx, t)
                allowed = [before, completed]
                if multi == 'allow-empty':
                    allowed.append([])
                    multi = None
                if multi is not None:
                    items = multi[2]
                    for j in range(len(items)):
                        mm = model.copy()
                        if multi[0] == 'iand':
                            kept = [k for k in items if k in set(present)]
                            allowed.extend(sorted(kept[:q], key=F.skey) for q in range(len(kept) + 1))
                            break
                        O.apply_model(mm, (multi[0], multi[1], tuple(items[:j + 1])))
                        allowed.append(mm.contents())
                outcomes['%s/%d-allocations' % (tag, min(cnt, 9))] += 1
                for i in range(cnt):
                    slot.set(('C17', fam, kind, sizes, hist, rname, name, i, cnt))
                    t = thunk = r = after = probs = None
                    case = dict(base, history=[list(o) for o in hist], route=rname, op=name, nth=i, of=cnt)
                    sig = dict(fam=fam, kind=kind, site=name, tag=tag, route=rname)
                    rc0 = [sys.getrefcount(o) for o in ledger]
                    t = build()
                    thunk, _ = prepare(t)
                    hook(i)
                    r = thunk()
                    seen = hook()
                    evaluations += 1
                    guards['faults_injected'] += 1
                    guards['op:' + tag] += 1
                    if seen <= i:
                        rep.add(dict(sig, cls='nondeterministic-count'), case,
                                'allocation #%d not reached on the second run (%d counted, %d seen)'
                                % (i, cnt, seen))
                        continue
                    if r != ('exc', 'MemoryError'):
                        rep.add(dict(sig, cls='no-MemoryError', got=r[1] if r[0] == 'exc' else 'ok'),
                                case, 'allocation #%d of %d failed in %s, the caller got %r'
                                % (i, cnt, name, r if r[0] == 'exc' else ('ok',)))
                    else:
                        guards['memoryerror_raised'] += 1
                    try:
                        after = O.contents(ctx, t)
                    except Exception as e:      # noqa
                        rep.add(dict(sig, cls='unreadable-' + type(e).__name__), case,
                                'after the failed %s the container cannot be read: %r' % (name, e))
                        continue
                    if after not in allowed:
                        rep.add(dict(sig, cls='partial-change'), case,
                                'after allocation #%d of %d failed in %s: contents %r; before %r; '
                                'completed %r' % (i, cnt, name, after, before, completed))
                        continue
                    guards['completed_or_unchanged'] += 1
                    if tree:
                        try:
                            probs = C.walk(C.dump(t, True), ismap)
                            t._check()
                            bcheck(t)
                        except Exception as e:      # noqa
                            probs = ['%s: %s' % (type(e).__name__, e)]
                        if probs:
                            rep.add(dict(sig, cls='unsound'), case,
                                    'after allocation #%d of %d failed in %s the tree is damaged: %s'
                                    % (i, cnt, name, '; '.join(probs[:3])))
                            continue
                    try:
                        okf = followup(t, after)
                    except Exception as e:      # noqa
                        okf = False
                    if not okf:
                        rep.add(dict(sig, cls='followup'), case,
                                'the container misbehaves after the failed %s' % name)
                    if ledger:
                        t = thunk = r = after = probs = None
                        rc1 = [sys.getrefcount(o) for o in ledger]
                        guards['ledger_audits'] += 1
                        if rc1 != rc0:
                            bad = [(repr(o), a, b) for o, a, b in zip(ledger, rc0, rc1) if a != b]
                            rep.add(dict(sig, cls='refcount-moved'), case,
                                    'after allocation #%d of %d failed in %s and the container was dropped, '
                                    'reference counts of key/value objects moved (object, before, after): %r'
                                    % (i, cnt, name, bad[:4]))
                    if sample is None and tag == 'insert' and cnt >= 3 and i == 1 and not ledger:
                        sample = case
                    t = None
    hook()
    return dict(evaluations=evaluations, distinct=evaluations, exhaustive=not rep.full,
                guards=dict(guards), outcomes=dict(outcomes), violations=rep.all(), sample=sample)


def jar_job(fam, kind, sizes, n):
    """Allocation failures while nodes are being LOADED inside an operation: the tree lives in a data
    manager (vt.minidb), every node is a ghost when the operation starts, so the allocations made by the
    __setstate__ of each node the operation walks into are interception points too (a child loaded in
    the middle of a split, the next bucket loaded by an unlink ...).  For every state of the shape space
    (one commit per step), every insert of an absent key and every delete of a present key, every
    allocation index: MemoryError, contents == before or == completed, sound, follow-up workload agrees
    with the model, and - after a full cache sweep and dropping the connection - no sanitizer report
    (a node that lost a reference is freed while its parent still points to it)."""
    from BTrees.check import check as bcheck
    from .. import minidb as M
    import gc
    ctx = O.Ctx(fam, kind, 'c')
    hook = F.cmodule(fam)._verif_alloc
    ex = S.explorer(fam, kind, 'c', sizes, n, 'centred', 'C17')
    keys, grid, vals = ex.keys, ex.grid, ex.vals
    states = []
    ex.state_monitors.append(lambda e, hist, t, model, c: states.append((hist, model.copy(), c)))
    ex.run()
    rep = Reporter('C17')
    guards = collections.Counter(ex.guards)
    ismap = ctx.is_map
    evaluations = 0
    sample = None
    base = dict(fam=fam, kind=kind, sizes=sizes, n=n, flavour='asan', jar=True)

    def followup(t, start):
        m = model_for(kind, start)
        for i, k in enumerate(grid):
            op = ('setitem', k, vals[i % 2]) if ismap else ('add', k)
            O.apply_sut(ctx, t, op)
            O.apply_model(m, op)
        for k in grid[::2]:
            op = ('delitem', k) if ismap else ('remove', k)
            O.apply_sut(ctx, t, op)
            O.apply_model(m, op)
        return O.contents(ctx, t) == m.contents()

    for hist, model, c in states:
        if rep.full:
            break
        st0 = M.Storage()
        c0 = M.Connection(st0)
        t0 = ctx.new()
        c0.add(t0)
        c0.commit()
        for op in hist:
            O.fast_apply(ctx, t0, op)
            c0.commit()
        root = t0._p_oid
        before = model.contents()

        def fresh():
            st = M.Storage()
            st.data = {oid: list(revs) for oid, revs in st0.data.items()}
            st.tid, st._oid, st.commits = st0.tid, st0._oid, list(st0.commits)
            return M.open_tree(st, root)
        conn, t = fresh()
        try:
            okbase = O.contents(ctx, t) == before and not C.walk(C.dump(t, True), ismap)
        except Exception:       # noqa
            okbase = False
        if not okbase:
            guards['bases_skipped_damaged(C04:F12b)'] += 1
            continue
        guards['jar_bases'] += 1
        present = model.keylist()
        ops = []
        for i, k in enumerate(grid):
            if k not in present:
                ops.append(('setitem', k, vals[i % 2]) if ismap else ('add', k))
        for k in present:
            ops.append(('delitem', k) if ismap else ('remove', k))
        for op in ops:
            conn, t = fresh()
            hook()
            r0 = O.apply_sut(ctx, t, op)
            cnt = hook()
            if r0[0] == 'exc':
                continue
            completed = O.contents(ctx, t)
            for i in range(cnt):
                slot.set(('C17jar', fam, kind, sizes, hist, op, i, cnt))
                conn = t = None
                conn, t = fresh()
                hook(i)
                try:
                    r = O.apply_sut(ctx, t, op)
                except MemoryError:     # raised while the bound method was fetched (the root is a ghost)
                    r = ('exc', 'MemoryError')
                seen = hook()
                evaluations += 1
                guards['faults_injected'] += 1
                guards['jar_faults'] += 1
                if conn.log and any(e[0] == 'setstate' for e in conn.log):
                    guards['jar_loads_inside_operation'] += 1
                case = dict(base, history=[list(o) for o in hist], op=list(op), nth=i, of=cnt)
                sig = dict(fam=fam, kind=kind, site=op[0], tag='jar', route='jar')
                if seen <= i:
                    rep.add(dict(sig, cls='nondeterministic-count'), case,
                            'allocation #%d not reached on the second run (%d counted, %d seen)' % (i, cnt, seen))
                    continue
                if r != ('exc', 'MemoryError'):
                    rep.add(dict(sig, cls='no-MemoryError', got=r[1] if r[0] == 'exc' else 'ok'), case,
                            'allocation #%d of %d failed in %r on a stored tree (all nodes ghosts), the caller got %r'
                            % (i, cnt, op, r if r[0] == 'exc' else ('ok',)))
                else:
                    guards['memoryerror_raised'] += 1
                # structure first, through __getstate__ only (the public read paths may not survive a damaged
                # tree: an emptied leaf that stayed linked trips an assertion in BTree_rangeSearch)
                if ctx.is_tree:
                    try:
                        dumped = C.dump(t, True)
                        probs = C.walk(dumped, ismap)
                    except Exception as e:      # noqa
                        probs = ['%s: %s' % (type(e).__name__, e)]
                    if probs:
                        pc = 'other'
                        if any('empty leaf' in p_ for p_ in probs):
                            pc = 'empty-leaf-linked'
                        elif any('not by descent' in p_ or 'descent successor' in p_ for p_ in probs):
                            pc = 'removed-leaf-in-chain'
                        rep.add(dict(sig, cls='unsound', problem=pc, deleting=op[0] in ('delitem', 'remove')), case,
                                'after allocation #%d of %d failed in %r the tree is damaged: %s'
                                % (i, cnt, op, '; '.join(probs[:3])))
                        conn.abort()
                        continue
                try:
                    after = O.contents(ctx, t)
                except Exception as e:      # noqa
                    rep.add(dict(sig, cls='unreadable-' + type(e).__name__), case,
                            'after the failed %r the stored tree cannot be read: %r' % (op, e))
                    continue
                if after not in (before, completed):
                    rep.add(dict(sig, cls='partial-change'), case,
                            'after allocation #%d of %d failed in %r: contents %r; before %r; completed %r'
                            % (i, cnt, op, after, before, completed))
                    continue
                guards['completed_or_unchanged'] += 1
                if ctx.is_tree:
                    try:
                        t._check()
                        bcheck(t)
                        probs = []
                    except Exception as e:      # noqa
                        probs = ['%s: %s' % (type(e).__name__, e)]
                    if probs:
                        rep.add(dict(sig, cls='unsound', problem='checker', deleting=op[0] in ('delitem', 'remove')),
                                case, 'after allocation #%d of %d failed in %r the tree is damaged: %s'
                                % (i, cnt, op, '; '.join(probs[:3])))
                        continue
                try:
                    okf = followup(t, after)
                except Exception:       # noqa
                    okf = False
                if not okf:
                    rep.add(dict(sig, cls='followup'), case, 'the stored tree misbehaves after the failed %r' % (op,))
                # everything is released now: abort (invalidate the changed nodes), sweep, drop
                try:
                    conn.abort()
                    conn.sweep()
                except Exception as e:      # noqa
                    rep.add(dict(sig, cls='teardown-' + type(e).__name__), case, 'abort/sweep failed: %r' % (e,))
                if sample is None and cnt >= 3 and i == 1:
                    sample = case
            conn = t = None
    hook()
    gc.collect()
    return dict(evaluations=evaluations, distinct=evaluations, exhaustive=not rep.full,
                guards=dict(guards), outcomes={}, violations=rep.all(), sample=sample)


def multiunion_job(fam):
    mod = F.cmodule(fam)
    hook = mod._verif_alloc
    rep = Reporter('C17')
    guards = collections.Counter()
    lo, hi = F.INT_RANGE[fam[0]]
    evaluations = 0
    setcls = F.cls(fam, 'Set', 'c')
    for n in (3, 40, 801, 1500):
        seq = [lo + 7 * i for i in range(n)][::-1]
        forms = {'list': lambda: [list(seq)], 'sets': lambda: [setcls(seq[i:i + 50]) for i in range(0, n, 50)],
                 'ints': lambda: list(seq[:20])}
        for fname, make in forms.items():
            ops = make()
            hook()
            r0 = O.outcome(lambda: list(mod.multiunion(ops)))
            cnt = hook()
            for i in range(cnt):
                slot.set(('C17', fam, 'multiunion', n, fname, i, cnt))
                ops = make()
                hook(i)
                r = O.outcome(lambda: list(mod.multiunion(ops)))
                hook()
                evaluations += 1
                guards['faults_injected'] += 1
                guards['op:multiunion'] += 1
                if r == ('exc', 'MemoryError'):
                    guards['memoryerror_raised'] += 1
                elif r[0] == 'ok' and r[1] == sorted(set(seq if fname != 'ints' else seq[:20])):
                    # the documented fallback: a failed scratch allocation switches to an
                    # in-place sort; the result is still exact
                    guards['multiunion_fallback_exact'] += 1
                else:
                    rep.add(dict(fam=fam, site='multiunion', tag='multiunion', cls='wrong-or-no-error',
                                 got=r[1] if r[0] == 'exc' else 'ok'),
                            dict(fam=fam, op='multiunion', n=n, form=fname, nth=i, of=cnt, flavour='asan'),
                            'allocation #%d of %d failed in multiunion of %d keys (%s): %r'
                            % (i, cnt, n, fname, r if r[0] == 'exc' else ('ok', r[1][:5])))
    hook()
    return dict(evaluations=evaluations, distinct=evaluations, exhaustive=True, guards=dict(guards),
                violations=rep.all(), sample=dict(fam=fam, op='multiunion', n=801, form='list'))


def replay(case):
    if case.get('jar'):
        r = jar_job(case['fam'], case['kind'], case['sizes'] and tuple(case['sizes']), case['n'])
        import json
        from ..runner import _jsonable
        norm = lambda x: json.dumps(_jsonable(x), sort_keys=True, default=repr)
        return dict(violations=[v for v in r['violations'] if all(
            norm(v['case'].get(k)) == norm(case.get(k)) for k in ('history', 'op', 'nth'))])
    if case.get('op') == 'multiunion':
        r = multiunion_job(case['fam'])
        return dict(violations=[v for v in r['violations']
                                if all(v['case'].get(k) == case.get(k) for k in ('n', 'form', 'nth'))])
    r = job(case['fam'], case['kind'], case['sizes'] and tuple(case['sizes']), case['n'], 'quick',
            case.get('variant', 'centred'))
    import json
    from ..runner import _jsonable
    norm = lambda x: json.dumps(_jsonable(x), sort_keys=True, default=repr)
    vs = [v for v in r['violations'] if all(norm(v['case'].get(k)) == norm(case.get(k))
                                            for k in ('history', 'route', 'op', 'nth'))]
    return dict(violations=vs)
