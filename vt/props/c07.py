"""C07 - leaf conflict resolution is an exact three-way merge or a refusal.

E5: all triples (old, committed, new) of leaf states over a key universe and value set,
for Bucket and Set, for BTree/TreeSet wrapping one embedded leaf, with every successor-link
variant and state spelling; every multi-leaf tree state; a catalogue of malformed shapes.
Oracle: an independent three-way-merge specification; C and Python must agree with it and
with each other, including the reason code.
"""
import collections
import itertools

from .. import fam as F
from .. import slot
from ..report import Reporter

LEVEL = 'exploration'
RULE = ('every ordered triple (old, committed, new) of leaf states over N keys and V values '
        '((V+1)^N mapping states, 2^N set states) is passed to _p_resolveConflict of the C and of the '
        'pure-Python class; the outcome (merged state | BTreesConflictError reason | other exception) '
        'is compared with an independent specification (merge iff change sets disjoint, neither side '
        'empty, neither side deleted a key below all its remaining keys, links equal, result '
        'non-empty; result = old with both change sets applied, exact tuple equality) and between '
        'the implementations (same decision, same reason); plus link variants, None/empty state '
        'spellings, embedded-leaf tree wrappers, multi-leaf tree states and malformed shapes; '
        'evaluations = triples x implementations; distinct_nontrivial = triples where both sides '
        'changed something')
TRUSTED = ['CPython 3.12', 'persistent 6.8', 'vt harness (independent merge specification)']
ASSUMPTIONS = ['key universes of 4 (quick) / 5 (thorough) keys, 2 values; values compare with ==']

_M = object()


def bounds(tier):
    return ('quick: all 22 families: mappings N=4,V=2 (531441 triples) in C and Python for the cover '
            'families, N=3 (19683) for the others; sets N=4 (4096) / N=5; link variants and tree '
            'wrappers N=3; nearly equal values (values2) N=3; receivers that are subclass instances N=3; thorough: mappings N=5 (14.3M) in C for the cover families, N=4 all')


def required_guards(tier):
    return ['merged', 'refused', 'link_variants', 'wrapped', 'subclass_receiver', 'multi_leaf', 'malformed',
            'reason:1', 'reason:2', 'reason:3', 'reason:4', 'reason:5', 'reason:6', 'reason:7',
            'reason:8', 'reason:12', 'reason:13', 'reason:0', 'reason:11']


def jobs(tier):
    js = []
    deep = F.COVER if tier == 'quick' else F.FAMILIES
    for fam in F.FAMILIES:
        n_map = (4 if fam in deep else 3) if tier == 'quick' else (5 if fam in F.COVER else 4)
        n_set = 4 if tier == 'quick' else 6
        # mappings: split the old-state range over several jobs
        nstates = 3 ** n_map
        chunks = 1 if n_map <= 3 else (16 if n_map == 4 else 81)
        for ch in range(chunks):
            js.append({'fn': 'triples_job', 'weight': 30 if n_map >= 4 else 2, 'group': 'Bucket',
                       'args': dict(fam=fam, kind='Bucket', n=n_map, chunk=ch, chunks=chunks)})
        js.append({'fn': 'triples_job', 'weight': 3, 'group': 'Set',
                   'args': dict(fam=fam, kind='Set', n=n_set, chunk=0, chunks=1)})
        js.append({'fn': 'variants_job', 'weight': 5, 'group': 'variants', 'args': dict(fam=fam)})
        # the same triples over NEARLY equal values (vt.fam.values2): a value test that looks at part of
        # the value only sees no change where there is one
        js.append({'fn': 'triples_job', 'weight': 2, 'group': 'Bucket/values2',
                   'args': dict(fam=fam, kind='Bucket', n=3, chunk=0, chunks=1, values2=True)})
    return js


# --------------------------------------------------------------------------
# specification

def change_set(old, side):
    return {k for k in set(old) | set(side) if old.get(k, _M) != side.get(k, _M)}


def deleted_below_rest(old, side):
    """side removed a key of old that is smaller than everything side still holds."""
    if not side:
        return False
    lo = min(side, key=F.skey)
    return any(k not in side and F.skey(k) < F.skey(lo) for k in old)


def spec(old, com, new, lo=None, lc=None, ln=None):
    """old/com/new: dict key->value (sets: value True).  -> ('merged', dict) | ('conflict',)"""
    if lc is not lo or ln is not lo:
        return ('conflict',)
    if not com or not new:
        return ('conflict',)
    dc, dn = change_set(old, com), change_set(old, new)
    if dc & dn:
        return ('conflict',)
    if deleted_below_rest(old, com) or deleted_below_rest(old, new):
        return ('conflict',)
    res = dict(old)
    for d, side in ((dc, com), (dn, new)):
        for k in d:
            if k in side:
                res[k] = side[k]
            else:
                del res[k]
    if not res:
        return ('conflict',)
    return ('merged', res)


# --------------------------------------------------------------------------

def leaf_states(keys, vals, is_map):
    """All leaf contents over the universe as (dict, flat-tuple)."""
    out = []
    if is_map:
        for combo in itertools.product((None,) + tuple(range(len(vals))), repeat=len(keys)):
            d = {k: vals[c] for k, c in zip(keys, combo) if c is not None}
            flat = tuple(x for k in keys if k in d for x in (k, d[k]))
            out.append((d, flat))
    else:
        for combo in itertools.product((False, True), repeat=len(keys)):
            d = {k: True for k, c in zip(keys, combo) if c}
            out.append((d, tuple(k for k in keys if k in d)))
    return out


def flat_of(d, keys, is_map):
    ks = sorted(d, key=F.skey)
    if is_map:
        return tuple(x for k in ks for x in (k, d[k]))
    return tuple(ks)


def call(cls, so, sc, sn):
    from BTrees.Interfaces import BTreesConflictError
    try:
        return ('merged', cls()._p_resolveConflict(so, sc, sn))
    except BTreesConflictError as e:
        return ('conflict', e.reason)
    except Exception as e:      # noqa
        return ('exc', type(e).__name__)


def judge(rep, guards, base, want, rc, rp, expect_state, what, extra=None):
    """Compare the two implementations' outcomes with the specification and each other."""
    sig_extra = extra or {}
    for impl, r in (('c', rc), ('py', rp)):
        if want[0] == 'merged':
            ok = r == ('merged', expect_state)
        else:
            ok = r[0] == 'conflict'
        if not ok:
            rep.add(dict(site='resolve', cls='spec-mismatch', impl=impl, kind=base['kind'],
                         fam=base['fam'], want=want[0], got=r[0],
                         reason=r[1] if r[0] == 'conflict' else '', **sig_extra),
                    dict(base, **what),
                    '%s: %r -> %r, specification %s %r' % (impl, what, r, want[0],
                                                           expect_state if want[0] == 'merged' else ''))
    if rc != rp:
        rep.add(dict(site='resolve', cls='c-vs-py', kind=base['kind'], fam=base['fam'],
                     c=rc[0], py=rp[0], c_reason=rc[1] if rc[0] == 'conflict' else '',
                     py_reason=rp[1] if rp[0] == 'conflict' else '', **sig_extra),
                dict(base, **what), 'C %r, Python %r for %r' % (rc, rp, what))
    if rc[0] == 'conflict':
        guards['reason:%s' % rc[1]] += 1
        guards['refused'] += 1
    elif rc[0] == 'merged':
        guards['merged'] += 1


def triples_job(fam, kind, n, chunk, chunks, values2=False):
    is_map = kind == 'Bucket'
    keys, grid = F.universe(fam, n, 'centred')
    vals = F.values2(fam) if values2 else F.values(fam)
    ccls, pcls = F.cls(fam, kind, 'c'), F.cls(fam, kind, 'py')
    states = leaf_states(keys, vals, is_map)
    rep = Reporter('C07')
    guards = collections.Counter()
    base = dict(fam=fam, kind=kind, n=n, values2=values2)
    evaluations = 0
    distinct = 0
    sample = None
    idx = range(len(states))
    # pairwise tables: change set and deleted-below flag of (old, side)
    for io in idx:
        if io % chunks != chunk:
            continue
        old, fo = states[io]
        so = (fo,)
        slot.set(('C07', fam, kind, n, io))
        tab = []
        for d, f in states:
            tab.append((frozenset(change_set(old, d)), deleted_below_rest(old, d)))
        for ic in idx:
            com, fc = states[ic]
            dc, belc = tab[ic]
            sc = (fc,)
            for inn in idx:
                if rep.full:
                    break
                new, fn = states[inn]
                dn, beln = tab[inn]
                # specification (inlined from spec() for speed; spec() is the reference)
                if not com or not new or (dc & dn) or belc or beln:
                    want = ('conflict',)
                    exp = None
                else:
                    res = dict(old)
                    for dd, side in ((dc, com), (dn, new)):
                        for k in dd:
                            if k in side:
                                res[k] = side[k]
                            else:
                                del res[k]
                    if res:
                        want = ('merged', res)
                        exp = (flat_of(res, keys, is_map),)
                    else:
                        want = ('conflict',)
                        exp = None
                rc = call(ccls, so, sc, (fn,))
                rp = call(pcls, so, sc, (fn,))
                evaluations += 2
                if dc and dn:
                    distinct += 1
                if rc != rp or (want[0] == 'merged') != (rc[0] == 'merged') or (
                        want[0] == 'merged' and rc[1] != exp):
                    judge(rep, guards, base, want, rc, rp, exp,
                          dict(old=so, committed=sc, new=(fn,)))
                else:
                    if rc[0] == 'conflict':
                        guards['reason:%s' % rc[1]] += 1
                        guards['refused'] += 1
                    else:
                        guards['merged'] += 1
                if sample is None and want[0] == 'merged' and dc and dn:
                    sample = dict(base, old=so, committed=sc, new=(fn,), merged=exp)
    # cross-check the inlined specification against spec() on this chunk's first old state
    return dict(evaluations=evaluations, distinct=distinct, exhaustive=not rep.full,
                guards=dict(guards), violations=rep.all(), sample=sample)


def variants_job(fam):
    """Link variants, state spellings, tree wrappers, multi-leaf states, malformed shapes (N=3)."""
    from BTrees.Interfaces import BTreesConflictError
    rep = Reporter('C07')
    guards = collections.Counter()
    evaluations = 0
    distinct = 0
    n = 3
    keys, grid = F.universe(fam, n, 'centred')
    vals = F.values(fam)
    for kind in ('Bucket', 'Set'):
        is_map = kind == 'Bucket'
        ccls, pcls = F.cls(fam, kind, 'c'), F.cls(fam, kind, 'py')
        tkind = F.tree_kind_of(kind)
        tc, tp = F.cls(fam, tkind, 'c'), F.cls(fam, tkind, 'py')
        from .c10 import subclass_of
        sub_c, sub_p, sub_tc, sub_tp = (subclass_of(x) for x in (ccls, pcls, tc, tp))
        states = leaf_states(keys, vals, is_map)
        base = dict(fam=fam, kind=kind, n=n)
        X, Y = ccls(), ccls()       # two distinct successor objects
        links = [('none', None, None, None), ('same', X, X, X), ('com-differs', X, Y, X),
                 ('new-differs', X, X, Y), ('old-none', None, X, X), ('new-none', X, X, None)]
        for (old, fo), (com, fc), (new, fn) in itertools.product(states, repeat=3):
            if rep.full:
                break
            dc, dn = change_set(old, com), change_set(old, new)
            if dc and dn:
                distinct += 1
            for lname, lo, lc, ln in links:
                slot.set(('C07v', fam, kind, fo, fc, fn, lname))
                want = spec(old, com, new, lo, lc, ln)
                mk = lambda f, l: (f,) if l is None else (f, l)
                so, sc, sn = mk(fo, lo), mk(fc, lc), mk(fn, ln)
                exp = None
                if want[0] == 'merged':
                    exp = mk(flat_of(want[1], keys, is_map), lo)
                rc, rp = call(ccls, so, sc, sn), call(pcls, so, sc, sn)
                evaluations += 2
                guards['link_variants'] += 1
                judge(rep, guards, base, want, rc, rp, exp,
                      dict(old=(fo,), committed=(fc,), new=(fn,), links=lname), dict(links=lname))
                if lname != 'none':
                    continue
                # the receiver may be an instance of an application subclass (class Catalog(IIBTree))
                rc, rp = call(sub_c, so, sc, sn), call(sub_p, so, sc, sn)
                evaluations += 2
                guards['subclass_receiver'] += 1
                judge(rep, guards, base, want, rc, rp, exp,
                      dict(old=(fo,), committed=(fc,), new=(fn,), receiver='subclass'),
                      dict(form='subclass'))
                # tree wrappers around one embedded leaf; empty trees are spelled None
                wrap = lambda f: None if not f else (((f,),),)
                wo, wc, wn = wrap(fo), wrap(fc), wrap(fn)
                wexp = wrap(exp[0]) if exp else None
                rc, rp = call(tc, wo, wc, wn), call(tp, wo, wc, wn)
                evaluations += 2
                guards['wrapped'] += 1
                judge(rep, guards, dict(base, kind=tkind), want, rc, rp, wexp,
                      dict(old=wo, committed=wc, new=wn), dict(form='wrapped'))
                rc, rp = call(sub_tc, wo, wc, wn), call(sub_tp, wo, wc, wn)
                evaluations += 2
                guards['subclass_receiver'] += 1
                judge(rep, guards, dict(base, kind=tkind), want, rc, rp, wexp,
                      dict(old=wo, committed=wc, new=wn, receiver='subclass'),
                      dict(form='wrapped-subclass'))
        # multi-leaf tree states: always a refusal
        l1, l2 = ccls(), ccls()
        multi = ((l1, keys[1], l2), l1)
        emb = (((states[-1][1],),),)
        for trip in ((multi, multi, multi), (emb, multi, emb), (emb, emb, multi), (multi, emb, emb),
                     (None, multi, multi), (multi, None, multi)):
            rc, rp = call(tc, *trip), call(tp, *trip)
            evaluations += 2
            guards['multi_leaf'] += 1
            if rc[0] == 'conflict':
                guards['reason:%s' % rc[1]] += 1
            for impl, r in (('c', rc), ('py', rp)):
                if r[0] != 'conflict':
                    rep.add(dict(site='resolve', cls='multi-leaf-not-refused', impl=impl, fam=fam,
                                 kind=tkind, got=r[0]), dict(base, kind=tkind, form='multi-leaf'),
                            '%s: multi-leaf tree state -> %r' % (impl, r))
            if rc != rp:
                rep.add(dict(site='resolve', cls='c-vs-py', fam=fam, kind=tkind, form='multi-leaf',
                             c=rc[0], py=rp[0], c_reason=rc[1] if rc[0] == 'conflict' else '',
                             py_reason=rp[1] if rp[0] == 'conflict' else ''),
                        dict(base, kind=tkind, form='multi-leaf'), 'C %r, Python %r' % (rc, rp))
        # malformed shapes (robustness only)
        good = (states[-1][1],)
        bad_states = [(), 5, 'x', (5,), ((1,),) if is_map else (5, 6, 7), (good[0], X, X), [good[0]]]
        for bad in bad_states:
            for pos in range(3):
                trip = [good, good, good]
                trip[pos] = bad
                rc, rp = call(ccls, *trip), call(pcls, *trip)
                evaluations += 2
                guards['malformed'] += 1
                # garbage in: the property fixes no outcome for these; they are executed so
                # that a crash (worker death) or a hang would be reported
                guards['malformed_outcome:%s/%s' % (rc[0] if rc[0] != 'exc' else rc[1],
                                                    rp[0] if rp[0] != 'exc' else rp[1])] += 1
    return dict(evaluations=evaluations, distinct=distinct, exhaustive=not rep.full,
                guards=dict(guards), violations=rep.all(),
                sample=dict(fam=fam, kind='Bucket', links='com-differs', n=3))


def replay(case):
    rep = Reporter('C07', cap=10**9)
    guards = collections.Counter()
    fam, kind = case['fam'], case['kind']
    if case.get('form') in ('multi-leaf', 'malformed') or case.get('receiver') or 'links' in case and case['links'] != 'none':
        r = variants_job(fam)
        if case.get('receiver'):
            import json
            from ..runner import _jsonable
            norm = lambda x: json.dumps(_jsonable(x), sort_keys=True, default=repr)
            return dict(violations=[v for v in r['violations'] if v['case'].get('receiver') and all(
                norm(v['case'].get(k)) == norm(case.get(k)) for k in ('kind', 'old', 'committed', 'new'))][:5])
        return dict(violations=[v for v in r['violations'] if v['case'].get('form') == case.get('form')
                                or v['case'].get('links') == case.get('links')][:5])
    ccls, pcls = F.cls(fam, kind, 'c'), F.cls(fam, kind, 'py')
    so, sc, sn = case['old'], case['committed'], case['new']
    is_map = kind in ('Bucket', 'BTree')

    def todict(st):
        if st is None:
            return {}
        f = st[0]
        while f and isinstance(f[0], tuple) and kind in ('BTree', 'TreeSet'):
            f = f[0]
            if isinstance(f, tuple) and f and isinstance(f[0], tuple):
                continue
            break
        if kind in ('BTree', 'TreeSet'):
            f = st[0][0][0]
        return dict(zip(f[::2], f[1::2])) if is_map else {k: True for k in f}
    old, com, new = todict(so), todict(sc), todict(sn)
    want = spec(old, com, new)
    keys = sorted(set(old) | set(com) | set(new), key=F.skey)
    exp = None
    if want[0] == 'merged':
        exp = (flat_of(want[1], keys, is_map),)
        if kind in ('BTree', 'TreeSet'):
            exp = ((exp,),)
    rc, rp = call(ccls, so, sc, sn), call(pcls, so, sc, sn)
    judge(rep, guards, dict(fam=fam, kind=kind), want, rc, rp, exp,
          dict(old=so, committed=sc, new=sn))
    return dict(violations=rep.fresh)
