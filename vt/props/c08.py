"""C08 - concurrent transactions on a tree merge, serialize or conflict - nothing else.

E1 over E4: base = every committed shape of a shape space; T1, T2 = every pair of short
transactions run on two connections opened at the same snapshot; both commit orders; a
third, fresh connection reads the result.  Plus the read-dependency oracle from the
connection log (every write declares the stored interior nodes it descended through,
pure reads declare nothing).
"""
import collections
import copy

from .. import fam as F
from .. import ops as O
from .. import space as S
from .. import canon as C
from .. import minidb as M
from .. import slot
from ..models import model_for
from ..report import Reporter

LEVEL = 'model_checking'
RULE = ('states = distinct committed base trees (every reachable canonical shape of the shape space, '
        'stored in a MiniDB); transitions = every ordered pair of single-operation transactions '
        '(insert of every absent universe or gap key, delete / value change of every present key, '
        'clear) executed on two connections opened at the same snapshot, in both commit orders; the '
        'second commit must raise a conflict (write, read-current or BTreesConflictError) or leave a '
        'stored tree that is sound and whose contents equal the serial execution (first, then second) '
        'or the base with both net changes applied; per operation the connection log must show every '
        'stored interior node on the descent path as readCurrent-declared or registered, and pure '
        'reads must declare nothing; traces validated = scenarios whose outcome was compared')
TRUSTED = ['CPython 3.12', 'persistent 6.8 (C Persistent, PickleCache)',
           'vt.minidb (ZODB commit order, MVCC snapshots, conflict resolution with one shared '
           'PersistentReference factory)', 'vt harness']
ASSUMPTIONS = ['MiniDB reproduces ZODB optimistic concurrency control: serial check per stored object, '
               '_p_resolveConflict on mismatch, readCurrent verification, atomic commit',
               'key universes of <= 7 keys plus gap keys, node sizes 2/2, 3/2, 4/2, 4/3']


def bounds(tier):
    return ('quick: cover families; bases = all shapes N=4 @2/2, N=5 @3/2, N=6 @4/2 (C) / N=5 @4/2 (Py); '
            'all pairs of 1-op transactions x 2 orders; trees that are instances of an application subclass '
            '(II OO fs, N=5 @4/2); other families N=4 @4/2; thorough: cover families '
            'N=5 @2/2, N=6 @3/2, N=7 @4/2 and 4/3, 2-op transactions on N=4 @4/2, thinning 7 keys x 3 orders; '
            'the other 15 families at the quick depth of the cover families')


def required_guards(tier):
    return ['outcome:ok-untouched', 'outcome:resolved', 'outcome:read-conflict',
            'outcome:unresolved', 'reason:13', 'reason:12', 'readcurrent_checked',
            'pure_reads_checked', 'c:height>=3', 'py:height>=3', 'subclass_tree', 'write_into_ghost_tree']


def configs(tier):
    out = []
    deep = F.COVER
    for fam in F.FAMILIES:
        for impl in F.IMPLS:
            c = impl == 'c'
            for kind in F.TREE_KINDS:
                if fam in deep or tier != 'quick':
                    if tier == 'quick' or fam not in deep:
                        # quick tier for the cover families = thorough tier for the other 15
                        out.append((fam, kind, impl, (2, 2), 4, 1, 10))
                        out.append((fam, kind, impl, (3, 2), 5 if c else 4, 1, 20))
                        out.append((fam, kind, impl, (4, 2), 6 if c else 5, 1, 40))
                        # deep bases: 6 keys built in ascending order at 2/2 (4 levels), thinned
                        # by every deletion history
                        out.append((fam, kind, impl, (2, 2), 6, 'thin:asc', 40 if c else 80))
                    else:
                        out.append((fam, kind, impl, (2, 2), 5, 1, 100))
                        out.append((fam, kind, impl, (3, 2), 6 if c else 5, 1, 100))
                        out.append((fam, kind, impl, (4, 2), 7 if c else 6, 1, 200))
                        out.append((fam, kind, impl, (4, 3), 7 if c else 6, 1, 200))
                        out.append((fam, kind, impl, (4, 2), 4, 2, 300))
                        for order in ('asc', 'desc', 'mid'):
                            out.append((fam, kind, impl, (2, 2), 7, 'thin:' + order, 300))
                else:
                    out.append((fam, kind, impl, (4, 2), 5 if c else 4, 1, 5))
    return out


def jobs(tier):
    js = [{'fn': 'job', 'weight': w, 'group': '%s/%s' % (impl, kind),
           'args': dict(fam=fam, kind=kind, impl=impl, sizes=sizes, n=n, L=L)}
          for fam, kind, impl, sizes, n, L, w in configs(tier)]
    # trees that are instances of an application subclass: roomy leaves (the root stays one embedded
    # leaf up to 4 keys, so conflicts are resolved at TREE level) and a split one
    for fam in ('II', 'OO', 'fs'):
        for impl in F.IMPLS:
            for kind in F.TREE_KINDS:
                js.append({'fn': 'job', 'weight': 20, 'group': '%s/%s/subclass' % (impl, kind),
                           'args': dict(fam=fam, kind=kind, impl=impl, sizes=(4, 2), n=5, L=1, subclass=True)})
                if tier != 'quick' and impl == 'c' and fam != 'fs':
                    # six keys: the root splits, child nodes are instances of the subclass too
                    js.append({'fn': 'job', 'weight': 60, 'group': '%s/%s/subclass' % (impl, kind),
                               'args': dict(fam=fam, kind=kind, impl=impl, sizes=(4, 2), n=6, L=1, subclass=True)})
    return js


# --------------------------------------------------------------------------

def txn_ops(ctx, keys, grid, vals, present):
    """Single operations available to a transaction on a base holding `present` keys."""
    ops = []
    for i, k in enumerate(grid):
        if k not in present:
            if ctx.is_map:
                ops.append(('setitem', k, vals[i % 2]))
            else:
                ops.append(('add', k))
    for k in present:
        ops.append(('delitem', k) if ctx.is_map else ('remove', k))
        if ctx.is_map:
            ops.append(('setitem', k, '@other'))
    ops.append(('clear',))
    return ops


def resolve_other(op, model, vals):
    if len(op) == 3 and op[2] == '@other':
        cur = model.d.get(op[1])
        return (op[0], op[1], vals[1] if cur == vals[0] else vals[0])
    return op


def descent_path(t, key):
    """oids (and objects) of the stored interior nodes a search for `key` passes through."""
    path = []
    n = t
    tcls = type(t)
    while isinstance(n, tcls):
        path.append(n)
        st = n.__getstate__()
        if st is None or len(st) == 1:
            break
        data = st[0]
        child = data[0]
        for j in range(1, len(data), 2):
            if F.skey(key) >= F.skey(data[j]):
                child = data[j + 1]
            else:
                break
        n = child
    return path


def apply_logged(ctx, conn, t, op, rep, guards, case):
    """Apply a write on a connection and check its read-dependency declarations."""
    tree_nodes = []
    look = t
    if t._p_state == -1:
        # the write is the connection's first touch of the tree: the nodes must still be GHOSTS when it
        # arrives (a declaration made before the node is loaded is silently dropped by the persistence
        # layer), so the descent path is read off a scout connection at the same snapshot
        scout = M.Connection(conn.storage)
        scout.snapshot = conn.snapshot
        look = scout.get(t._p_oid)
        guards['write_into_ghost_tree'] += 1
    if op[0] != 'clear':
        tree_nodes = descent_path(look, op[1])
    else:
        tree_nodes = [look] if len(look) else []     # clearing an empty tree writes nothing
    stored = [n for n in tree_nodes if n._p_oid is not None]
    conn.log = []
    r = O.apply_sut(ctx, t, op)
    declared = {oid for what, oid in conn.log if what == 'readCurrent'}
    registered = {oid for what, oid in conn.log if what == 'register'}
    guards['readcurrent_checked'] += 1
    if r[0] == 'ok':
        for n in stored:
            if n._p_oid not in declared and n._p_oid not in registered:
                rep.add(dict(site='readCurrent', cls='undeclared', op=op[0], impl=ctx.impl,
                             kind=ctx.kind, fam=ctx.fam,
                             depth=tree_nodes.index(n), path_len=len(tree_nodes)),
                        case, 'write %r did not declare interior node #%d of %d on its descent '
                              'path as a read dependency (readCurrent %d nodes, registered %d)'
                              % (op, tree_nodes.index(n), len(tree_nodes), len(declared),
                                 len(registered)))
                break
    return r


def pure_reads(ctx, conn, t, keys, grid, rep, guards, case):
    conn.log = []
    probe = grid[len(grid) // 2]
    try:
        t.get(probe) if ctx.is_map else None
        probe in t
        t.has_key(probe)
        len(t)
        list(t.keys(grid[1], grid[-2]))
        list(t)
        if len(t):
            t.minKey()
            t.maxKey(probe) if F.skey(probe) >= F.skey(t.minKey()) else None
        if ctx.is_map:
            list(t.items())
            list(t.values(grid[0]))
    except Exception as e:      # noqa
        rep.add(dict(site='pure-read', cls='exc-' + type(e).__name__, impl=ctx.impl, kind=ctx.kind,
                     fam=ctx.fam), case, 'read on a loaded tree raised %r' % (e,))
    guards['pure_reads_checked'] += 1
    bad = [x for x in conn.log if x[0] in ('readCurrent', 'register')]
    if bad:
        rep.add(dict(site='pure-read', cls='declares', what=bad[0][0], impl=ctx.impl,
                     kind=ctx.kind, fam=ctx.fam), case,
                'pure reads declared %r' % (bad[:3],))


def job(fam, kind, impl, sizes, n, L, subclass=False):
    # subclass: the tree is an instance of an application subclass (class Catalog(IIBTree)); the bases
    # are the same shapes (the subclass carries the same node sizes)
    ctx = O.Ctx(fam, kind, impl, subclass_sizes=sizes if subclass else None)
    thin = None
    if isinstance(L, str):
        thin, L = L[5:], 1
    ex = S.explorer(fam, kind, impl, sizes, n, 'centred', 'C08', thin=thin)
    keys, grid, vals = ex.keys, ex.grid, ex.vals
    bases = []

    def collect(ex_, hist, t, model, c):
        bases.append((hist, c))
    ex.state_monitors.append(collect)
    ex.run()
    rep = Reporter('C08')
    guards = collections.Counter(ex.guards)
    for g in list(guards):
        if g.startswith('height'):
            guards['%s:%s' % (impl, g)] = guards[g]
    outcomes = collections.Counter()
    base_case = dict(fam=fam, kind=kind, impl=impl, sizes=sizes, n=n, L=L, subclass=subclass)
    if subclass:
        guards['subclass_tree'] += 1
    scenarios = 0
    compared = 0
    sample = None
    from BTrees.check import check as bcheck
    if subclass:
        bcheck = lambda t: None     # BTrees.check only knows the exact classes
    for hist, c in bases:
        if rep.full:
            break
        # ---- build and verify the committed base
        st0 = M.Storage()
        c0 = M.Connection(st0)
        t0 = ctx.new()
        c0.add(t0)
        c0.commit()
        model0 = model_for(kind)
        for op in hist:
            O.fast_apply(ctx, t0, op)
            O.apply_model(model0, op)
            c0.commit()
        root = t0._p_oid
        _, rb = M.open_tree(st0, root)
        try:
            okbase = (O.contents(ctx, rb) == model0.contents() and
                      not C.walk(C.dump(rb, True), ctx.is_map))
        except Exception:       # noqa
            okbase = False
        if not okbase:
            guards['bases_skipped_damaged(C04:F12b)'] += 1
            continue
        guards['bases'] += 1
        present = model0.keylist()
        ops = txn_ops(ctx, keys, grid, vals, present)
        if L == 1:
            txns = [(o,) for o in ops]
        else:
            slim = [o for o in ops if o[0] != 'clear']
            txns = [(o,) for o in ops] + [(a, b) for a in slim for b in slim if a[1] != b[1]]
        for i1, ops1 in enumerate(txns):
            for i2, ops2 in enumerate(txns):
                for order in (0, 1):
                    if rep.full:
                        break
                    slot.set(('C08', fam, kind, impl, sizes, hist, ops1, ops2, order))
                    scenarios += 1
                    case = dict(base_case, history=[list(o) for o in hist], t1=list(ops1),
                                t2=list(ops2), order=order)
                    st = M.Storage()
                    st.data = {k: list(v) for k, v in st0.data.items()}
                    st.tid, st._oid, st.commits = st0.tid, st0._oid, list(st0.commits)
                    conns = []
                    ok_apply = True
                    for opsx in (ops1, ops2):
                        cx = M.Connection(st)
                        tx = cx.get(root)
                        mx = model0.copy()
                        if i1 == 0 and i2 == 0 and order == 0 and opsx is ops1:
                            pure_reads(ctx, cx, tx, keys, grid, rep, guards, case)
                        ropsx = []
                        for op in opsx:
                            op = resolve_other(op, mx, vals)
                            r = apply_logged(ctx, cx, tx, op, rep, guards, case)
                            O.apply_model(mx, op)
                            ropsx.append(op)
                            if r[0] != 'ok':
                                ok_apply = False
                        conns.append((cx, tx, ropsx))
                    if not ok_apply:
                        outcomes['op-failed'] += 1
                        continue
                    first, second = (conns[0], conns[1]) if order == 0 else (conns[1], conns[0])
                    try:
                        first[0].commit()
                    except Exception as e:      # noqa
                        rep.add(dict(site='first-commit', cls='exc-' + type(e).__name__, impl=impl,
                                     kind=kind, fam=fam), case, 'first commit raised %r' % (e,))
                        continue
                    try:
                        second[0].commit()
                        outcome = 'resolved' if second[0].last_resolved else 'ok-untouched'
                    except M.ReadConflictError:
                        outcome = 'read-conflict'
                    except M.UnresolvedConflict as e:
                        outcome = 'unresolved'
                        guards['reason:%s' % (e.reason,)] += 1
                        from BTrees.Interfaces import BTreesConflictError
                        if not isinstance(e.exc, BTreesConflictError):
                            rep.add(dict(site='second-commit', cls='resolve-exc-' + type(e.exc).__name__,
                                         impl=impl, kind=kind, fam=fam), case,
                                    '_p_resolveConflict raised %r instead of a conflict error' % (e.exc,))
                    except M.ConflictError:
                        outcome = 'write-conflict'
                    except Exception as e:      # noqa
                        rep.add(dict(site='second-commit', cls='exc-' + type(e).__name__, impl=impl,
                                     kind=kind, fam=fam), case, 'second commit raised %r' % (e,))
                        continue
                    guards['outcome:' + outcome] += 1
                    outcomes['%s/%s+%s' % (outcome, first[2][-1][0], second[2][-1][0])] += 1
                    compared += 1
                    # what the database holds now
                    serial = model0.copy()
                    for op in first[2] + second[2]:
                        O.apply_model(serial, op)
                    firstonly = model0.copy()
                    for op in first[2]:
                        O.apply_model(firstonly, op)
                    _, r3 = M.open_tree(st, root)
                    try:
                        got = O.contents(ctx, r3)
                        c3 = C.dump(r3, True)
                        probs = C.walk(c3, ctx.is_map)
                        r3._check()
                        bcheck(r3)
                        if len(r3) != len(got):
                            probs.append('len() %d != %d entries iterated' % (len(r3), len(got)))
                        for k in grid:
                            if (k in r3) != any((kv[0] if ctx.is_map else kv) == k for kv in got):
                                probs.append('membership of %r disagrees with iteration' % (k,))
                                break
                    except Exception as e:      # noqa
                        rep.add(dict(site='stored-tree', cls='exc-' + type(e).__name__, impl=impl,
                                     kind=kind, fam=fam, outcome=outcome,
                                     ops='%s+%s' % (first[2][-1][0], second[2][-1][0])), case,
                                'stored tree after %s: %r' % (outcome, e))
                        continue
                    if probs:
                        rep.add(dict(site='stored-tree', cls='unsound', impl=impl, kind=kind, fam=fam,
                                     outcome=outcome, ops='%s+%s' % (first[2][-1][0], second[2][-1][0])),
                                case, 'stored tree after %s is damaged: %s' % (outcome, '; '.join(probs[:3])))
                        continue
                    if outcome in ('resolved', 'ok-untouched'):
                        allowed = [serial.contents()]
                        # base with both net changes applied (key sets disjoint)
                        merged = merged_contents(model0, first[2], second[2], kind)
                        if merged is not None:
                            allowed.append(merged)
                        if got not in allowed:
                            rep.add(dict(site='stored-tree', cls='contents', impl=impl, kind=kind,
                                         fam=fam, outcome=outcome,
                                         ops='%s+%s' % (first[2][-1][0], second[2][-1][0])), case,
                                    'after both commits the database holds %r; serial result %r; '
                                    'merge %r' % (got, serial.contents(), merged))
                    else:
                        if got != firstonly.contents():
                            rep.add(dict(site='stored-tree', cls='contents-after-conflict', impl=impl,
                                         kind=kind, fam=fam, outcome=outcome), case,
                                    'second commit failed (%s) but the database holds %r, expected '
                                    'the first transaction only: %r' % (outcome, got, firstonly.contents()))
                    if sample is None and outcome == 'resolved':
                        sample = case
    return dict(states=guards['bases'], transitions=scenarios, compared=compared,
                evaluations=scenarios, distinct=guards['bases'], exhaustive=not rep.full,
                guards=dict(guards), outcomes=dict(outcomes), violations=rep.all(), sample=sample)


def merged_contents(model0, ops_a, ops_b, kind):
    """base (+) net changes of both transactions, or None if they touch a common key."""
    def net(ops):
        m = model0.copy()
        for op in ops:
            O.apply_model(m, op)
        a, b = dict_of(model0), dict_of(m)
        return {k: b.get(k, _GONE) for k in set(a) | set(b) if a.get(k, _GONE) != b.get(k, _GONE)}
    na, nb = net(ops_a), net(ops_b)
    if set(na) & set(nb):
        return None
    d = dict_of(model0)
    for chg in (na, nb):
        for k, v in chg.items():
            if v is _GONE:
                d.pop(k, None)
            else:
                d[k] = v
    m = model_for(kind, d.items() if kind in F.MAP_KINDS else d.keys())
    return m.contents()


_GONE = object()


def dict_of(m):
    return dict(m.d) if hasattr(m, 'd') else {k: True for k in m.s}


def replay(case):
    """Re-run the job restricted to the recorded scenario."""
    fam, kind, impl = case['fam'], case['kind'], case['impl']
    ctx = O.Ctx(fam, kind, impl, subclass_sizes=tuple(case['sizes']) if case.get('subclass') else None)
    F.set_sizes(fam, *case['sizes'])
    keys, grid = F.universe(fam, case['n'], 'centred')
    vals = F.values(fam)
    rep = Reporter('C08', cap=10**9)
    guards = collections.Counter()
    from BTrees.check import check as bcheck
    if case.get('subclass'):
        bcheck = lambda t: None
    st = M.Storage()
    c0 = M.Connection(st)
    t0 = ctx.new()
    c0.add(t0)
    c0.commit()
    model0 = model_for(kind)
    for op in case['history']:
        op = S._tup(op)
        O.fast_apply(ctx, t0, op)
        O.apply_model(model0, op)
        c0.commit()
    root = t0._p_oid
    conns = []
    for opsx in (case['t1'], case['t2']):
        cx = M.Connection(st)
        tx = cx.get(root)
        mx = model0.copy()
        rops = []
        for op in opsx:
            op = resolve_other(S._tup(op), mx, vals)
            apply_logged(ctx, cx, tx, op, rep, guards, case)
            O.apply_model(mx, op)
            rops.append(op)
        conns.append((cx, tx, rops))
    first, second = (conns[0], conns[1]) if case['order'] == 0 else (conns[1], conns[0])
    first[0].commit()
    try:
        second[0].commit()
        outcome = 'committed'
    except M.ConflictError as e:
        outcome = 'conflict'
    serial = model0.copy()
    for op in first[2] + (second[2] if outcome == 'committed' else []):
        O.apply_model(serial, op)
    _, r3 = M.open_tree(st, root)
    try:
        got = O.contents(ctx, r3)
        probs = C.walk(C.dump(r3, True), ctx.is_map)
        r3._check()
        bcheck(r3)
        for k in grid:
            if (k in r3) != any((kv[0] if ctx.is_map else kv) == k for kv in got):
                probs.append('membership of %r disagrees with iteration' % (k,))
        if probs:
            rep.add(dict(site='stored-tree', cls='unsound'), case, '; '.join(probs))
        allowed = [serial.contents()]
        if outcome == 'committed':
            m = merged_contents(model0, first[2], second[2], kind)
            if m is not None:
                allowed.append(m)
        if got not in allowed:
            rep.add(dict(site='stored-tree', cls='contents'), case,
                    'database holds %r, allowed %r' % (got, allowed))
    except Exception as e:      # noqa
        rep.add(dict(site='stored-tree', cls='exc-' + type(e).__name__), case, repr(e))
    return dict(violations=rep.fresh)
