"""C19 - Length is a conflict-free counter.

E5 + E4: all (old, a, b) of an integer cube through _p_resolveConflict directly and
end-to-end through MiniDB with two connections in both commit orders; and an explicit-state
BFS of the cell semantics (set / change / call / getstate / pickle / copy / commit / abort /
eviction) against an integer cell.
"""
import collections
import copy
import itertools
import pickle

from .. import minidb as M
from .. import slot
from ..report import Reporter

LEVEL = 'exploration'
RULE = ('conflict cube: every (old, a, b) with old, a, b in [-B, B] plus big-integer corners, '
        'resolved directly and end-to-end (two MiniDB connections updating the same stored Length '
        'from the same snapshot, both commit orders; the stored value must be old+a+b); cell '
        'semantics: BFS over all histories of up to D events from {set v, change d, call, call '
        'with args, getstate/setstate, pickle, copy, deepcopy, commit, abort, evict} on a stored '
        'Length against a plain integer cell with a committed shadow; evaluations = resolutions + '
        'end-to-end scenarios + cell events; distinct_nontrivial = distinct (old,a,b) with a!=0 '
        'and b!=0 plus distinct cell states')
TRUSTED = ['CPython 3.12', 'persistent 6.8', 'vt.minidb']
ASSUMPTIONS = ['the universal claim over unbounded integers is exercised on the cube [-B,B]^3 and on '
               'corner values up to 10**30 only; model checking cannot cover the unbounded quantifier']

BIG = [0, 1, -1, 2**31 - 1, 2**31, -2**31, 2**63 - 1, 2**63, -2**63, 2**64, -2**64, 10**30, -10**30]


def bounds(tier):
    return ('quick: cube B=12 direct, B=5 end-to-end, 13 big corners cubed direct and end-to-end '
            'pairs; cell BFS depth 4; thorough: B=40 direct, B=10 end-to-end, cell depth 5')


def required_guards(tier):
    return ['direct', 'end_to_end', 'resolved_commits', 'cell_events', 'both_nonzero']


def jobs(tier):
    B = 12 if tier == 'quick' else 40
    E = 5 if tier == 'quick' else 10
    js = []
    for lo in range(-B, B + 1, 5):
        js.append({'fn': 'cube_job', 'weight': 3, 'group': 'direct',
                   'args': dict(olds=list(range(lo, min(lo + 5, B + 1))), B=B, e2e=False)})
    for old in range(-E, E + 1):
        js.append({'fn': 'cube_job', 'weight': 5, 'group': 'end-to-end',
                   'args': dict(olds=[old], B=E, e2e=True)})
    js.append({'fn': 'big_job', 'weight': 10, 'group': 'big', 'args': {}})
    js.append({'fn': 'cell_job', 'weight': 20, 'group': 'cell',
               'args': dict(depth=4 if tier == 'quick' else 5)})
    return js


def _length():
    from BTrees.Length import Length
    return Length


def direct(rep, guards, old, a, b):
    L = _length()
    want = old + a + b
    for s1, s2 in ((old + a, old + b), (old + b, old + a)):
        guards['direct'] += 1
        try:
            got = L()._p_resolveConflict(old, s1, s2)
        except Exception as e:      # noqa
            got = ('exc', type(e).__name__)
        if got != want or type(got) is not int:
            rep.add(dict(site='resolve', cls='value', same=a == b, zero=(a == 0 or b == 0)),
                    dict(kind='direct', old=old, a=a, b=b),
                    '_p_resolveConflict(%r, %r, %r) -> %r, expected %r' % (old, s1, s2, got, want))


def end_to_end(rep, guards, old, a, b, how=('change', 'change')):
    """Two connections from the same snapshot; both commit orders."""
    L = _length()
    for order in (0, 1):
        slot.set(('C19', 'e2e', old, a, b, how, order))
        st = M.Storage()
        c0 = M.Connection(st)
        obj = L(old)
        c0.add(obj)
        c0.commit()
        oid = obj._p_oid
        conns = []
        for delta, meth in ((a, how[0]), (b, how[1])):
            c = M.Connection(st)
            o = c.get(oid)
            if meth == 'change':
                o.change(delta)
            else:
                o.set(o() + delta)
            conns.append(c)
        if order:
            conns.reverse()
        guards['end_to_end'] += 1
        try:
            conns[0].commit()
            conns[1].commit()
            if conns[1].last_resolved:
                guards['resolved_commits'] += 1
        except Exception as e:      # noqa
            rep.add(dict(site='e2e', cls='exc-' + type(e).__name__),
                    dict(kind='e2e', old=old, a=a, b=b, how=list(how), order=order),
                    'second commit raised %r' % (e,))
            continue
        c3, o3 = M.open_tree(st, oid)
        got = o3()
        if got != old + a + b:
            rep.add(dict(site='e2e', cls='value', same=a == b, zero=(a == 0 or b == 0)),
                    dict(kind='e2e', old=old, a=a, b=b, how=list(how), order=order),
                    'stored value %r, expected %r (old %r, +%r, +%r, order %d)'
                    % (got, old + a + b, old, a, b, order))
        # the connection that was resolved reloads the merged value
        for c in conns:
            o = c.get(oid)
            c.begin()
            if o() != old + a + b:
                rep.add(dict(site='e2e', cls='stale-connection'),
                        dict(kind='e2e', old=old, a=a, b=b, how=list(how), order=order),
                        'a committing connection still sees %r' % (o(),))


def cube_job(olds, B, e2e):
    rep = Reporter('C19')
    guards = collections.Counter()
    n = 0
    distinct = 0
    sample = None
    for old in olds:
        for a in range(-B, B + 1):
            for b in range(-B, B + 1):
                if rep.full:
                    break
                n += 1
                if a and b:
                    distinct += 1
                    guards['both_nonzero'] += 1
                if e2e:
                    end_to_end(rep, guards, old, a, b)
                    if (a + b) % 7 == 0:
                        end_to_end(rep, guards, old, a, b, ('set', 'change'))
                else:
                    direct(rep, guards, old, a, b)
                if sample is None and a == 3 and b == -2:
                    sample = dict(kind='e2e' if e2e else 'direct', old=old, a=a, b=b)
    return dict(evaluations=guards['direct'] + guards['end_to_end'], distinct=distinct,
                exhaustive=not rep.full, guards=dict(guards), violations=rep.all(), sample=sample)


def big_job():
    rep = Reporter('C19')
    guards = collections.Counter()
    distinct = 0
    for old, a, b in itertools.product(BIG, BIG, BIG):
        if rep.full:
            break
        direct(rep, guards, old, a, b)
        if a and b:
            distinct += 1
            guards['both_nonzero'] += 1
    for old, a in itertools.product(BIG, BIG):
        for b in (a, -a, 1, 10**30):
            end_to_end(rep, guards, old, a, b)
    return dict(evaluations=guards['direct'] + guards['end_to_end'], distinct=distinct,
                exhaustive=not rep.full, guards=dict(guards), violations=rep.all(),
                sample=dict(kind='direct', old=2**63, a=-2**64, b=10**30))


# --------------------------------------------------------------------------
# cell semantics

EVENTS = [('set', 5), ('set', -3), ('set', 10**20), ('change', 1), ('change', -7), ('call',),
          ('call_args', 1, 2), ('getstate',), ('setstate', 4), ('pickle',), ('copy',), ('deepcopy',),
          ('commit',), ('abort',), ('evict',), ('reader',)]


class CellWorld:
    def __init__(self):
        L = _length()
        self.st = M.Storage()
        self.conn = M.Connection(self.st)
        self.obj = L(2)
        self.conn.add(self.obj)
        self.conn.commit()
        self.value = 2          # model: current value
        self.committed = 2      # model: last committed value

    def step(self, ev):
        """-> problem string or None"""
        o = self.obj
        name = ev[0]
        if name == 'set':
            o.set(ev[1])
            self.value = ev[1]
        elif name == 'change':
            o.change(ev[1])
            self.value += ev[1]
        elif name == 'call':
            if o() != self.value:
                return 'call -> %r, expected %r' % (o(), self.value)
        elif name == 'call_args':
            if o(*ev[1:]) != self.value:
                return 'call with args -> %r, expected %r' % (o(*ev[1:]), self.value)
        elif name == 'getstate':
            if o.__getstate__() != self.value:
                return '__getstate__ -> %r, expected %r' % (o.__getstate__(), self.value)
        elif name == 'setstate':
            # loading state is what the data manager does; it is not a modification
            pass
        elif name == 'pickle':
            for proto in range(0, 6):
                c = pickle.loads(pickle.dumps(o, proto))
                if type(c) is not type(o) or c() != self.value:
                    return 'pickle proto %d -> %r, expected %r' % (proto, c(), self.value)
        elif name in ('copy', 'deepcopy'):
            c = getattr(copy, name)(o)
            if c is o or c() != self.value:
                return '%s -> %r, expected %r' % (name, c(), self.value)
            c.change(1)
            if o() != self.value:
                return '%s is not independent of the original' % name
        elif name == 'commit':
            self.conn.commit()
            self.committed = self.value
        elif name == 'abort':
            self.conn.abort()
            self.value = self.committed
        elif name == 'evict':
            # only unmodified objects can be evicted; a modified one must refuse
            o._p_deactivate()
        elif name == 'reader':
            c, r = M.open_tree(self.st, o._p_oid)
            if r() != self.committed:
                return 'a fresh reader sees %r, committed %r' % (r(), self.committed)
        if o() != self.value:
            return 'after %r the cell holds %r, expected %r' % (ev, o(), self.value)
        changed = self.value != self.committed
        if changed and not o._p_changed:
            return 'after %r the cell differs from its stored value but is not marked changed' % (ev,)
        return None


def cell_job(depth):
    rep = Reporter('C19')
    guards = collections.Counter()
    seen = set()
    frontier = collections.deque([()])
    states = 0
    events = [e for e in EVENTS if e[0] != 'setstate']
    # a state loaded into a LIVE cell (what a data manager does when it refreshes an object in
    # place, or `a.__setstate__(b.__getstate__())`) replaces whatever the cell held - for every
    # pair (held value, loaded value) of a small square incl. 0 and big integers
    L = _length()
    vals = list(range(-3, 4)) + [10 ** 20, -10 ** 20]
    for held in vals:
        for loaded in vals:
            x = L(held)
            x.__setstate__(loaded)
            guards['live_setstate'] += 1
            if x() != loaded or x.__getstate__() != loaded:
                rep.add(dict(site='setstate', cls='value', zero=loaded == 0),
                        dict(kind='setstate', held=held, loaded=loaded),
                        'Length(%r).__setstate__(%r) -> %r' % (held, loaded, x()))
    while frontier:
        hist = frontier.popleft()
        if rep.full:
            break
        for ev in events:
            slot.set(('C19', 'cell', hist, ev))
            w = CellWorld()
            bad = None
            for e in hist:
                w.step(e)
            try:
                bad = w.step(ev)
            except Exception as e:      # noqa
                bad = 'event %r raised %r' % (ev, e)
            guards['cell_events'] += 1
            if bad:
                rep.add(dict(site='cell', cls=ev[0], prev=hist[-1][0] if hist else ''),
                        dict(kind='cell', history=[list(h) for h in hist], ev=list(ev)), bad)
                continue
            key = (w.value, w.committed, bool(w.obj._p_changed), w.obj._p_state)
            if len(hist) + 1 < depth:
                k2 = (key, ev[0] in ('set', 'change'))
                if (k2, len(hist)) not in seen:
                    seen.add((k2, len(hist)))
                    states += 1
                    frontier.append(hist + (ev,))
    return dict(evaluations=guards['cell_events'], distinct=states, exhaustive=not rep.full,
                guards=dict(guards), violations=rep.all(),
                sample=dict(kind='cell', history=[['set', 5], ['commit'], ['change', 1], ['evict'],
                                                  ['abort'], ['call']]))


def replay(case):
    rep = Reporter('C19', cap=10**9)
    guards = collections.Counter()
    if case['kind'] == 'direct':
        direct(rep, guards, case['old'], case['a'], case['b'])
    elif case['kind'] == 'e2e':
        end_to_end(rep, guards, case['old'], case['a'], case['b'], tuple(case.get('how', ('change', 'change'))))
    else:
        w = CellWorld()
        for e in case['history']:
            w.step(tuple(e))
        try:
            bad = w.step(tuple(case['ev']))
        except Exception as e:      # noqa
            bad = 'raised %r' % (e,)
        if bad:
            rep.add(dict(site='cell', cls=case['ev'][0]), case, bad)
    return dict(violations=rep.fresh)
