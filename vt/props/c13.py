"""C13 - only representable keys and values are stored, and they read back exactly.

E5: for every family, every boundary value offered as key and as value through every
writing entry point into an empty, a single-leaf and a multi-leaf container; lookups of
unrepresentable keys.  Oracle: an independent definition of representability (integer
range tables, struct round-trip for float32, exact lengths for fs).
"""
import collections
import math
import struct

from .. import fam as F
from .. import canon as C
from .. import slot
from ..report import Reporter
from .c09 import TAG, materialize, Plain, Cmp, IndexLike, FloatLike

LEVEL = 'exploration'
RULE = ('for every family x kind x implementation x base container (empty, single leaf, multi-leaf at '
        'node sizes 2/2) x writing entry point ([]=, insert, setdefault, update(dict), update(pairs), '
        'constructor(dict), constructor(pairs), __setstate__; add, insert, update(list), '
        'constructor(list), |=, __setstate__ for sets) x every boundary value as key and as value: '
        'representable (independent definition) => the write succeeds and the datum reads back '
        'equal (floats: their single-precision rounding) through [] / items; otherwise TypeError '
        'and the container is unchanged (contents and canonical dump); lookups (get, [], in, '
        'has_key) of unrepresentable keys report absence; evaluations = writes + lookups; '
        'distinct_nontrivial = distinct (family, kind, entry point, value, role) cases')
TRUSTED = ['CPython 3.12', 'persistent 6.8', 'vt harness']
ASSUMPTIONS = ['boundary alphabet of 70 values; representability of a float32 value is decided with '
               'struct.pack("f") (finite rounding, or inf/nan given as such)']

FLT_MAX = 3.4028234663852886e+38


def int_alphabet():
    out = [0, 1, -1, True, False, 10 ** 30, -10 ** 30]
    for b in (2 ** 31, 2 ** 32, 2 ** 63, 2 ** 64):
        for d in (-2, -1, 0, 1, 2):
            out.append(b + d)
            out.append(-b + d)
    return out


OTHER = [0.0, -0.0, 0.1, 1.5, -1.5, 16777217.0, FLT_MAX, math.nextafter(FLT_MAX, math.inf), 1e39,
         -1e39, 1e-45, 1e-50, (TAG, 'inf'), (TAG, 'ninf'), (TAG, 'nan'),
         '7', '1.5', ' 4 ', 'nan', '1e3', b'7', (TAG, 'index'), (TAG, 'floatable'),
         '', 'a', 'ab', b'', b'a', b'ab', b'abc', b'abcde', b'abcdef', b'abcdefg', b'abcdefgh',
         None, (), (1, 2), (TAG, 'obj'), (TAG, 'cmp')]


def bounds(tier):
    return ('all 22 families x 4 kinds x 2 implementations x 3 base shapes x every entry point x %d '
            'values as key and as value (quick and thorough identical)' % (len(int_alphabet()) + len(OTHER)))


def required_guards(tier):
    return ['accepted', 'rejected', 'as_key', 'as_value', 'lookups', 'ep:setstate', 'refused_load_target_checked', 'ep:ctor-dict',
            'ep:update-OOBTree', 'ep:ctor-OOSet',
            'ep:update-pairs', 'ep:setdefault', 'ep:insert', 'ep:ior', 'base:multi']


def jobs(tier):
    return [{'fn': 'job', 'weight': 3 if impl == 'c' else 8, 'group': impl,
             'args': dict(fam=fam, impl=impl)} for fam in F.FAMILIES for impl in F.IMPLS]


# --------------------------------------------------------------------------
# independent representability

def f32(x):
    return struct.unpack('f', struct.pack('f', x))[0]


def classify(tp, x):
    """-> ('ok', readback) | ('no',) | ('skip',)   for datum x offered to a slot of type tp
    ('I','U','L','Q','F','f' = 2-byte key,'s' = 6-byte value,'O' key,'V' object value)."""
    if tp in F.INT_RANGE:
        if isinstance(x, int):      # bool included: True is the integer 1
            lo, hi = F.INT_RANGE[tp]
            return ('ok', int(x)) if lo <= x <= hi else ('no',)
        return ('no',)
    if tp == 'F':
        if isinstance(x, (int, float)):
            if isinstance(x, float) and (x != x or x in (math.inf, -math.inf)):
                return ('ok', x)
            try:
                r = f32(x)
            except (OverflowError, struct.error):
                return ('no',)
            if r in (math.inf, -math.inf):
                return ('no',)          # finite but outside the float32 range
            return ('ok', r)
        return ('no',)
    if tp == 'f':
        return ('ok', x) if isinstance(x, bytes) and len(x) == 2 else ('no',)
    if tp == 's':
        return ('ok', x) if isinstance(x, bytes) and len(x) == 6 else ('no',)
    if tp == 'O':
        if isinstance(x, Plain):
            return ('no',)
        if isinstance(x, float) and x != x:
            return ('skip',)            # nan has no place in an order
        return ('ok', x)
    if tp == 'V':
        return ('ok', x)
    raise ValueError(tp)


def same(a, b):
    if isinstance(a, float) and isinstance(b, float) and a != a and b != b:
        return True
    if isinstance(a, float) and isinstance(b, float) and a == b == 0.0:
        return True
    return type(a) is type(b) and a == b if isinstance(b, (bytes, str, bool)) is False else a == b


def orderable_with(x, base_keys):
    """Object keys: can x be compared with the keys already there?"""
    try:
        for k in base_keys:
            if k is None or x is None:
                continue
            x < k   # noqa
            k < x   # noqa
        return True
    except TypeError:
        return False


def job(fam, impl):
    rep = Reporter('C13')
    guards = collections.Counter()
    F.set_sizes(fam, 2, 2)
    kt = fam[0]
    vt = fam[1] if fam[1] != 'O' else 'V'
    values = int_alphabet() + OTHER
    keys5, grid = F.universe(fam, 5, 'centred')
    vals = F.values(fam)
    evaluations = 0
    distinct = 0
    sample = None

    def contents(t, ismap):
        return list(t.items()) if ismap else list(t.keys())

    for kind in F.KINDS:
        cls = F.cls(fam, kind, impl)
        ismap = kind in F.MAP_KINDS
        tree = kind in F.TREE_KINDS
        bases = {'empty': [], 'single': keys5[:2]}
        if tree:
            bases['multi'] = keys5
        if ismap:
            eps = ['setitem', 'setdefault', 'update-dict', 'update-pairs', 'ctor-dict', 'ctor-pairs',
                   'setstate']
            if kind == 'BTree':
                eps.append('insert')
            eps += ['update-OOBTree', 'ctor-OOBucket']
        else:
            eps = ['add', 'insert', 'update-list', 'ctor-list', 'ior', 'setstate',
                   'update-OOTreeSet', 'ctor-OOSet']

        def build(bname):
            t = cls()
            for i, k in enumerate(bases[bname]):
                if ismap:
                    t[k] = vals[i % 2]
                else:
                    t.add(k)
            return t

        def write(t, ep, k, v):
            """Perform the write; returns the container the datum should now be in."""
            if ep == 'setitem':
                t[k] = v
            elif ep == 'insert':
                t.insert(k, v) if ismap else t.insert(k)
            elif ep == 'setdefault':
                t.setdefault(k, v)
            elif ep == 'update-dict':
                t.update({k: v})
            elif ep == 'update-pairs':
                t.update([(k, v)])
            elif ep == 'ctor-dict':
                return cls({k: v})
            elif ep == 'ctor-pairs':
                return cls([(k, v)])
            elif ep == 'add':
                t.add(k)
            elif ep == 'update-list':
                t.update([k])
            elif ep == 'ctor-list':
                return cls([k])
            elif ep == 'ior':
                t |= [k]
            elif ep in ('update-OOBTree', 'ctor-OOBucket', 'update-OOTreeSet', 'ctor-OOSet'):
                # a container of another (wider) family as the source
                from BTrees import OOBTree as oo
                src = getattr(oo, ep.split('-')[1] + ('Py' if impl == 'py' else ''))()
                if ismap:
                    src[k] = v
                else:
                    src.add(k)
                if ep.startswith('ctor'):
                    return cls(src)
                t.update(src)
            elif ep == 'setstate':
                n = cls()
                target[0] = n
                flat = (k, v) if ismap else (k,)
                if target[1]:
                    # a datum that must be refused sits BETWEEN two good items: whatever was converted
                    # before the refusal must not stay behind in the target
                    g0, g2 = grid[0], grid[-1]
                    flat = (g0, vals[0]) + flat + (g2, vals[1]) if ismap else (g0,) + flat + (g2,)
                n.__setstate__((((flat,),),) if tree else (flat,))
                return n
            return t

        target = [None, False]

        for role in ('key', 'value'):
            if role == 'value' and not ismap:
                continue
            for x0 in values:
                x = materialize(x0)
                cl = classify(kt if role == 'key' else vt, x)
                if cl[0] == 'skip':
                    continue
                if isinstance(x, (IndexLike, FloatLike)) and (kt if role == 'key' else vt) in 'OV':
                    continue    # meant for the typed slots (as object keys they are just `obj` again)
                for bname in bases:
                    for ep in eps:
                        if (ep in ('ctor-dict', 'ctor-pairs', 'ctor-list', 'setstate') or
                                ep.startswith('ctor-OO')) and bname != 'empty':
                            continue
                        if 'OO' in ep and (isinstance(x, Plain) or (isinstance(x, float) and x != x)
                                           or fam == 'OO'):
                            continue    # cannot be put into the OO source container
                        if ep == 'ctor-dict' and role == 'key' and not _hashable(x):
                            continue
                        if ep == 'update-dict' and role == 'key' and not _hashable(x):
                            continue
                        slot.set(('C13', fam, impl, kind, role, x0, bname, ep))
                        t = build(bname)
                        # pick the other half of the pair
                        newk = grid[4]      # a gap key, representable, absent
                        if role == 'key':
                            k, v = x, vals[0]
                        else:
                            k, v = (newk if ep != 'setitem' or True else newk), x
                        if role == 'key' and kt == 'O' and cl[0] == 'ok' and \
                                not orderable_with(x, bases[bname]):
                            continue    # cannot be ordered against the base keys: C14 territory
                        if role == 'key' and cl[0] == 'ok' and any(_eq(x, b) for b in bases[bname]):
                            # present already: a second write is a replacement, fine, keep it
                            pass
                        before = contents(t, ismap)
                        dbefore = C.dump(t, tree)
                        case = dict(fam=fam, impl=impl, kind=kind, role=role, value=repr(x0), base=bname,
                                    ep=ep)
                        sig = dict(fam=fam, impl=impl, kind=kind, role=role, ep=ep,
                                   vclass=vclass(x), tp=(kt if role == 'key' else fam[1]))
                        evaluations += 1
                        distinct += 1 if bname == 'empty' else 0
                        guards['as_' + role] += 1
                        guards['ep:' + ep] += 1
                        guards['base:' + bname] += 1
                        target[0], target[1] = None, cl[0] != 'ok'
                        try:
                            holder = write(t, ep, k, v)
                            outcome = 'ok'
                        except TypeError:
                            outcome = 'TypeError'
                            holder = t
                        except Exception as e:      # noqa
                            outcome = type(e).__name__
                            holder = t
                        if cl[0] == 'ok':
                            guards['accepted'] += 1
                            if outcome != 'ok':
                                rep.add(dict(sig, cls='rejected-representable', out=outcome), case,
                                        '%s %s as %s via %s into %s container: raised %s'
                                        % (kind, x0, role, ep, bname, outcome))
                                continue
                            # reads back exactly
                            try:
                                if role == 'key':
                                    got = [kk for kk in (holder.keys()) if _eq(kk, cl[1])]
                                    replaced = any(_eq(x, b) for b in bases[bname])
                                    okk = len(got) == 1 and (replaced or same(got[0], cl[1])) \
                                        and (cl[1] in holder)
                                    if ismap and okk:
                                        okk = _eq(holder[cl[1]], vals[0]) or (
                                            ep == 'setdefault' and any(_eq(x, b) for b in bases[bname]))
                                    if not okk:
                                        rep.add(dict(sig, cls='readback-key'), case,
                                                '%s key %r stored via %s reads back as %r (contents %r)'
                                                % (kind, x0, ep, got, contents(holder, ismap)))
                                else:
                                    got = holder[k]
                                    if not same(got, cl[1]):
                                        rep.add(dict(sig, cls='readback-value'), case,
                                                '%s value %r stored via %s reads back as %r, expected %r'
                                                % (kind, x0, ep, got, cl[1]))
                            except Exception as e:      # noqa
                                rep.add(dict(sig, cls='readback-exc-' + type(e).__name__), case,
                                        'reading back raised %r' % (e,))
                        else:
                            guards['rejected'] += 1
                            if outcome != 'TypeError':
                                rep.add(dict(sig, cls='accepted-unrepresentable' if outcome == 'ok'
                                             else 'wrong-exception', out=outcome), case,
                                        '%s %s as %s via %s into %s container: %s; contents now %r'
                                        % (kind, x0, role, ep, bname, outcome,
                                           _safe(lambda: contents(holder, ismap))))
                            if ep == 'setstate' and outcome != 'ok' and target[0] is not None:
                                # the target of the refused load: empty, readable, and usable afterwards
                                n = target[0]
                                guards['refused_load_target_checked'] += 1
                                seen_ = _safe(lambda: (len(n), contents(n, ismap)))
                                if seen_ == (0, []):
                                    def reuse():
                                        if ismap:
                                            n[newk] = vals[0]
                                        else:
                                            n.add(newk)
                                        return contents(n, ismap)
                                    seen_ = _safe(reuse)
                                    want_ = [(newk, vals[0])] if ismap else [newk]
                                else:
                                    want_ = (0, [])
                                if seen_ != want_:
                                    rep.add(dict(sig, cls='refused-load-left-data', out=outcome), case,
                                            'after __setstate__ refused %r the target reads %r (expected %r)'
                                            % (x0, seen_, want_))
                            if holder is t:
                                after = _safe(lambda: contents(t, ismap))
                                dafter = _safe(lambda: C.dump(t, tree))
                                if after != before or dafter != dbefore:
                                    rep.add(dict(sig, cls='modified-by-rejected-write', out=outcome), case,
                                            'container changed by a rejected write: %r -> %r; dump %r -> %r'
                                            % (before, after, dbefore, dafter))
                            else:
                                if outcome == 'ok' and len(holder) and outcome != 'TypeError':
                                    pass
                        if sample is None and role == 'value' and cl[0] == 'no' and bname == 'multi':
                            sample = dict(case, expected='TypeError, unchanged')
            # lookups of unrepresentable keys
            if role == 'key':
                for x0 in values:
                    x = materialize(x0)
                    cl = classify(kt, x)
                    if cl[0] != 'no':
                        continue
                    if isinstance(x, (IndexLike, FloatLike)) and kt == 'O':
                        continue
                    for bname in bases:
                        t = build(bname)
                        probes = [('in', lambda: x in t, False), ('has_key', lambda: bool(t.has_key(x)), False)]
                        if ismap:
                            probes += [('get', lambda: t.get(x, 'D'), 'D'), ('getitem', lambda: t[x], KeyError)]
                        for name, f, want in probes:
                            guards['lookups'] += 1
                            evaluations += 1
                            try:
                                got = f()
                            except KeyError:
                                got = KeyError
                            except Exception as e:      # noqa
                                got = type(e).__name__
                            if got != want:
                                rep.add(dict(fam=fam, impl=impl, kind=kind, role='lookup', ep=name,
                                             vclass=vclass(x), tp=kt, cls='lookup'),
                                        dict(fam=fam, impl=impl, kind=kind, value=repr(x0), base=bname,
                                             ep=name),
                                        '%s lookup %s of unrepresentable key %r in %s container -> %r, '
                                        'expected absence (%r)' % (kind, name, x0, bname, got, want))
    return dict(evaluations=evaluations, distinct=distinct, exhaustive=not rep.full,
                guards=dict(guards), violations=rep.all(), sample=sample)


def _hashable(x):
    try:
        hash(x)
        return True
    except TypeError:
        return False


def _eq(a, b):
    try:
        return bool(a == b)
    except Exception:       # noqa
        return False


def _safe(f):
    try:
        return f()
    except Exception as e:      # noqa
        return ('exc', type(e).__name__)


def vclass(x):
    if isinstance(x, bool):
        return 'bool'
    if isinstance(x, int):
        return 'int'
    if isinstance(x, float):
        if x != x:
            return 'nan'
        if x in (math.inf, -math.inf):
            return 'inf'
        if abs(x) > FLT_MAX:
            return 'float-beyond-f32'
        try:
            return 'float-exact' if f32(x) == x else 'float-inexact'
        except OverflowError:
            return 'float-beyond-f32'
    if isinstance(x, (IndexLike, FloatLike)):
        return 'conversion-protocol-object'
    if isinstance(x, Plain):
        return 'obj'
    return type(x).__name__


def replay(case):
    r = job(case['fam'], case['impl'])
    vs = [v for v in r['violations'] if all(v['case'].get(k) == case.get(k)
                                            for k in ('kind', 'role', 'value', 'base', 'ep'))]
    return dict(violations=vs)
