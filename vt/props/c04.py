"""C04 - every change reaches the database: commit + reload reproduces the contents.

E1 over E4: BFS whose events are transactions (1..L operations followed by commit or
abort) on ONE long-lived writer connection of a MiniDB; after every commit a fresh
connection (empty cache, storage only) must see the writer's contents in a sound tree;
after every abort the writer shows the last committed contents again.
"""
import collections

from .. import fam as F
from .. import ops as O
from .. import space as S
from .. import canon as C
from .. import minidb as M
from .. import slot
from ..models import model_for

LEVEL = 'model_checking'
RULE = ('states = distinct (canonical committed tree, record layout) pairs reachable by sequences '
        'of committed transactions from the empty stored tree (BFS fixed point); transitions = '
        'every transaction of 1..L alphabet operations followed by commit, and by abort, executed '
        'on a long-lived writer connection that is never reloaded; after each commit a fresh '
        'reader connection loads the stored records and is compared with the reference model and '
        'with the writer (contents, canonical shape, _check, check, independent walk); after each '
        'abort the writer is compared with the last committed model; value replacements are '
        'executed and verified in every state but not expanded')
TRUSTED = ['CPython 3.12', 'persistent 6.8 (C Persistent, PickleCache)',
           'vt.minidb (storage + data manager with ZODB commit order)', 'vt harness']
ASSUMPTIONS = ['MiniDB writes exactly the registered objects plus objects newly reachable from them, '
               'in ZODB order (registered objects in order, new sub-objects LIFO, __getstate__ at pop)',
               'key universes of <= 6 keys, node sizes {2,3}; one scripted default-size scenario']


def bounds(tier):
    return ('quick: cover families, trees N=5 @2/2 with 1-op transactions, N=4 @2/2 with <=2-op '
            'transactions, N=5 @3/2 and 2/3 1-op, leaf kinds N=4; other families N=4 1-op; on the N=4 1-op spaces every '
            'abort is followed - nothing read in between - by every deletion / two insertions and a commit; '
            'default-size scripted boundary scenario; thorough: cover families N=6 1-op, N=5 2-op, N=4 3-op, '
            'thinning 11 keys x 3 orders, sizes 3/2 2/3 3/3; the other 15 families at the quick depth of the '
            'cover families')


def required_guards(tier):
    return ['height>=3', 'commits', 'aborts', 'reader_checks', 'embedded_to_split',
            'value_replacements', 'records_written', 'mutable_commits', 'mutable_aborts',
            'commit_after_untouched_abort']


def configs(tier):
    out = []
    deep = F.COVER
    for fam in F.FAMILIES:
        for impl in F.IMPLS:
            c = impl == 'c'
            for kind in F.TREE_KINDS:
                if fam in deep or tier != 'quick':
                    if tier == 'quick' or fam not in deep:
                        # quick tier for the cover families = thorough tier for the other 15
                        out.append((fam, kind, impl, (2, 2), 5, 1, 20 if c else 60))
                        out.append((fam, kind, impl, (2, 2), 4, 1, 5 if c else 15))    # + follow-ups of aborts
                        big = c and kind == 'BTree' and fam in ('OO', 'IF', 'fs', 'QL')
                        out.append((fam, kind, impl, (2, 2), 5 if big else 4, 2, 200 if big else 30))
                        if c:
                            out.append((fam, kind, impl, (3, 2), 5, 1, 5))
                            out.append((fam, kind, impl, (2, 3), 5, 1, 5))
                        out.append((fam, kind, impl, (2, 2), 9, 'thin:asc', 20 if c else 60))
                        if kind == 'BTree':
                            out.append((fam, kind, impl, (2, 2), 8, 'thin:desc', 10 if c else 30))
                    else:
                        out.append((fam, kind, impl, (2, 2), 6 if c else 5, 1, 300))
                        out.append((fam, kind, impl, (2, 2), 5 if c else 4, 2, 300))
                        out.append((fam, kind, impl, (2, 2), 4 if c else 3, 3, 300))
                        for order in ('asc', 'desc', 'mid'):
                            out.append((fam, kind, impl, (2, 2), 11 if c else 9, 'thin:' + order, 300))
                        for sz in ((3, 2), (2, 3), (3, 3)):
                            out.append((fam, kind, impl, sz, 5, 1, 30))
                else:
                    out.append((fam, kind, impl, (2, 2), 4 if c else 3, 1, 2 if c else 5))
            for kind in ('Bucket', 'Set'):
                out.append((fam, kind, impl, None, 4 if fam in deep else 3, 2 if fam in deep else 1, 1))
    return out


def jobs(tier):
    js = [{'fn': 'job', 'weight': w, 'group': '%s/%s' % (impl, 'tree' if kind in F.TREE_KINDS else 'leaf'),
           'args': dict(fam=fam, kind=kind, impl=impl, sizes=sizes, n=n, L=L)}
          for fam, kind, impl, sizes, n, L, w in configs(tier)]
    deep = F.COVER if tier == 'quick' else F.FAMILIES
    for fam in deep:
        for impl in F.IMPLS:
            for kind in F.TREE_KINDS:
                js.append({'fn': 'script_job', 'weight': 5, 'group': '%s/default-size' % impl,
                           'args': dict(fam=fam, kind=kind, impl=impl)})
    for fam in ('OO', 'IO', 'LO', 'UO', 'QO'):
        for impl in F.IMPLS:
            js.append({'fn': 'mutable_job', 'weight': 5, 'group': '%s/mutable-value' % impl,
                       'args': dict(fam=fam, kind='BTree', impl=impl, sizes=(2, 2),
                                    n=4 if tier == 'quick' else 5)})
            js.append({'fn': 'mutable_job', 'weight': 1, 'group': '%s/mutable-value' % impl,
                       'args': dict(fam=fam, kind='Bucket', impl=impl, sizes=None, n=3)})
    return js


# --------------------------------------------------------------------------

def layout(t, tree):
    """Which nodes are separate records: tuple of booleans in descent order."""
    if not tree:
        return ()
    out = []

    def rec(n):
        out.append(n._p_oid is not None)
        st = n.__getstate__()
        if st is None or not isinstance(n, type(t)):
            return
        if len(st) == 1:
            return
        for j, x in enumerate(st[0]):
            if j % 2 == 0:
                rec(x)
    rec(t)
    return tuple(out)


def lone_inline(t, tree):
    """True if some NON-root interior node of the (writer's) tree currently serialises its
    single, never-stored leaf inline (its __getstate__ has the one-element form)."""
    if not tree:
        return False
    found = [False]

    def rec(n, root):
        st = n.__getstate__()
        if st is None:
            return
        if len(st) == 1:
            if not root:
                found[0] = True
            return
        for j, x in enumerate(st[0]):
            if j % 2 == 0 and isinstance(x, type(t)):
                rec(x, False)
    rec(t, True)
    return found[0]


def txn_alphabet(ctx, keys, vals, L):
    base = S.slim_alphabet(ctx, keys, vals)
    if ctx.is_map:
        pairs = tuple((k, vals[i % 2]) for i, k in enumerate(keys))
        base.append(('update', 'pairs', pairs))
        base.append(('update', 'dict', pairs[::2]))
        # the other mutating entry points (each must announce its change itself)
        base.append(('pop', keys[0]))
        base.append(('pop', keys[-1]))
        base.append(('setdefault', keys[1], vals[1]))
        if ctx.kind == 'BTree':
            base.append(('insert', keys[len(keys) // 2], vals[0]))
    else:
        base.append(('update', 'list', tuple(keys)))
        base.append(('update', 'list', tuple(keys[::2])))
        base.append(('discard', keys[0]))
        base.append(('insert', keys[-1]))
        base.append(('ior', 'list', tuple(keys[1::2])))
        base.append(('iand', 'list', tuple(keys[1:])))
        base.append(('isub', 'list', tuple(keys[:2])))
        base.append(('ixor', 'list', tuple(keys[::2])))
    txns = [(op,) for op in base]
    if L >= 2:
        # second operation from the slim alphabet (+ one multi-key update): every entry point is
        # a first operation, every structural change a second one
        second = S.slim_alphabet(ctx, keys, vals) + [base[len(S.slim_alphabet(ctx, keys, vals))]]
        txns += [(a, b) for a in base for b in second]
    if L >= 3:
        slim = S.slim_alphabet(ctx, keys, vals, extra=False)
        txns += [(a, b, c) for a in slim for b in slim for c in slim]
    # non-expanding deviations: value replacement of every key (maps), alone and after an insert
    extra = []
    if ctx.is_map:
        for i, k in enumerate(keys):
            extra.append((('setitem', k, vals[(i + 1) % 2]),))
        if L >= 2:
            for i, k in enumerate(keys):
                for j, k2 in enumerate(keys):
                    if k2 != k:
                        extra.append((('setitem', k2, vals[j % 2]), ('setitem', k, vals[(i + 1) % 2])))
                        break
    return txns, extra


class World:
    """A storage, the long-lived writer connection and its tree, plus the reference model."""

    def __init__(self, ctx):
        self.ctx = ctx
        self.storage = M.Storage()
        self.conn = M.Connection(self.storage)
        self.t = ctx.new()
        self.conn.add(self.t)
        self.conn.commit()
        self.model = model_for(ctx.kind)
        self.records = 0

    def run(self, ops):
        for op in ops:
            O.fast_apply(self.ctx, self.t, op)
        m = self.model.copy()
        for op in ops:
            O.apply_model(m, op)
        return m

    def commit(self, newmodel):
        stored = self.conn.commit()
        self.records += len(stored)
        self.model = newmodel
        return stored

    def reader(self):
        conn, t = M.open_tree(self.storage, self.t._p_oid)
        return t


def verify_reader(ctx, world, sizes, want, report, guards, what):
    """Fresh connection: contents, shape vs writer, soundness."""
    from BTrees.check import check as bcheck
    tree = ctx.is_tree
    guards['reader_checks'] += 1
    nprob = [0]
    _report = report

    def report(site, cls, detail):
        nprob[0] += 1
        _report(site, cls, detail)
    try:
        r = world.reader()
        got = O.contents(ctx, r)
    except Exception as e:      # noqa
        report('reader', 'exc-' + type(e).__name__, 'loading the stored tree: %r' % (e,))
        return None
    if got != want:
        report('reader', 'contents', '%s: reader sees %r, model %r' % (what, got, want))
        return None
    try:
        wgot = O.contents(ctx, world.t)
    except Exception as e:      # noqa
        wgot = ('exc', type(e).__name__)
    if wgot != want:
        report('writer', 'contents', '%s: writer sees %r, model %r' % (what, wgot, want))
    if len(r) != len(want):
        report('reader', 'len', '%s: len(reader) %r, expected %r' % (what, len(r), len(want)))
    try:
        cr = C.dump(r, tree)
        cw = C.dump(world.t, tree)
    except Exception as e:      # noqa
        report('reader', 'dump-failed', repr(e))
        return None
    if cr != cw:
        # finding F12c: the stored root embeds its only bucket while the same commit also wrote
        # that bucket as a record of its own (an unlinked, emptied bucket that is still
        # registered keeps a `next` reference to it): reader = embedded form, writer = the same
        # contents as a one-child tree whose leaf has an oid
        double = bool(tree and cr[0] == 'I' and len(cr) == 2 and cw[0] != 'I' and cw[0] != 'E'
                      and cw == (('T', (('L', 0),), 0), ((cr[1], None),)))
        report('reader', 'shape-root-embedded-and-stored' if double else 'shape',
               '%s: reader %r, writer %r' % (what, cr, cw))
    if tree:
        probs = C.walk(cr, ctx.is_map, *(sizes or (None, None)))
        if probs:
            report('reader', 'walk', '%s: %s' % (what, '; '.join(probs[:3])))
        for name, f in (('_check', r._check), ('check', lambda: bcheck(r))):
            try:
                f()
            except Exception as e:      # noqa
                report('reader', name, '%s: %s() -> %r' % (what, name, e))
        try:
            world.t._check()
        except Exception as e:      # noqa
            report('writer', '_check', '%s: writer _check() -> %r' % (what, e))
    return cr if not nprob[0] else None


def job(fam, kind, impl, sizes, n, L):
    ctx = O.Ctx(fam, kind, impl)
    keys, grid = F.universe(fam, n, 'centred')
    vals = F.values(fam)
    if sizes:
        F.set_sizes(fam, *sizes)
    tree = ctx.is_tree
    prefix_hist = ()
    if isinstance(L, str) and L.startswith('thin:'):
        # thinning space: all n keys inserted by one committed transaction in a scripted
        # order, then BFS over single-deletion transactions
        prefix_hist = (S.build_prefix(ctx, keys, vals, L[5:]),)
        txns = [(op,) for op in S.delete_alphabet(ctx, keys)]
        extra = []
        if ctx.is_map:
            extra = [(('setitem', k, vals[(i + 1) % 2]),) for i, k in enumerate(keys)]
    else:
        txns, extra = txn_alphabet(ctx, keys, vals, L)
    guards = collections.Counter()
    outcomes = collections.Counter()
    from ..report import Reporter
    rep = Reporter('C04')
    base = dict(fam=fam, kind=kind, impl=impl, sizes=sizes, n=n, L=L)

    def rebuild(hist):
        w = World(ctx)
        for ops in hist:
            w.commit(w.run(ops))
        return w

    # second transactions after an abort: every deletion and two insertions, on the small spaces
    follow_aborts = tree and n <= 4 and L == 1
    follow_ops = [(op,) for op in S.delete_alphabet(ctx, keys)] + \
        [(op,) for op in (S.build_prefix(ctx, keys, vals, 'asc')[:1] + S.build_prefix(ctx, keys, vals, 'desc')[:1])]
    w0 = rebuild(prefix_hist)
    k0 = (C.dump(w0.t, tree), layout(w0.t, tree))
    seen = {k0}
    frontier = collections.deque([(prefix_hist, k0)])
    if prefix_hist:
        def report0(site, cls, detail):
            rep.add(dict(fam=fam, kind=kind, impl=impl, site=site, cls=cls,
                         action='commit', first_op='build', last_op='build'),
                    dict(base, history=[], ops=list(prefix_hist[0]), action='commit'), detail)
        verify_reader(ctx, w0, sizes, w0.model.contents(), report0, guards, 'scripted build')
    states, transitions, compared = 1, 0, 0
    sample = None
    while frontier:
        if rep.full:
            break
        hist, key = frontier.popleft()
        first = True
        for ops, expand in [(t, True) for t in txns] + [(t, False) for t in extra]:
            for action in ('commit', 'abort'):
                if action == 'abort' and not expand:
                    continue
                if action == 'abort' and len(ops) >= 2 and n >= 5 and not isinstance(L, str):
                    # aborts of multi-operation transactions are enumerated on the N=4 space
                    continue
                slot.set(('C04', fam, kind, impl, sizes, hist, ops, action))
                w = rebuild(hist)
                if first:
                    first = False
                    if (C.dump(w.t, tree), layout(w.t, tree)) != key:
                        raise RuntimeError('replay of %r did not reproduce its state' % (hist,))
                committed = w.model.contents()

                flags = {}

                def report(site, cls, detail, _ops=ops, _action=action, _flags=flags):
                    rep.add(dict(fam=fam, kind=kind, impl=impl, site=site, cls=cls,
                                 action=_action, first_op=_ops[0][0], last_op=_ops[-1][0],
                                 lone_inline=_flags.get('lone', False)),
                            dict(base, history=[list(x) for x in hist], ops=list(_ops),
                                 action=_action), detail)
                before_h = C.shape_stats(key[0]) if tree else None
                newmodel = w.run(ops)
                transitions += 1
                if action == 'commit':
                    flags['lone'] = lone_inline(w.t, tree)
                    if flags['lone']:
                        guards['lone_inline_commits'] += 1
                    try:
                        stored = w.commit(newmodel)
                    except Exception as e:      # noqa
                        report('commit', 'exc-' + type(e).__name__, 'commit raised %r' % (e,))
                        continue
                    guards['commits'] += 1
                    guards['records_written'] += len(stored)
                    if not expand:
                        guards['value_replacements'] += 1
                    outcomes['commit/%d-records' % min(len(stored), 9)] += 1
                    cr = verify_reader(ctx, w, sizes, newmodel.contents(), report, guards,
                                       'after commit of %r' % (ops,))
                    compared += 1
                    if cr is None:
                        continue
                    if tree:
                        st = C.shape_stats(cr)
                        if st['height'] >= 3:
                            guards['height>=3'] += 1
                        if key[0][0] == 'I' and cr[0] not in ('I', 'E'):
                            guards['embedded_to_split'] += 1
                        if key[0][0] not in ('I', 'E') and cr[0] == 'I':
                            guards['split_to_embedded'] += 1
                    nk = (cr, layout(w.t, tree))
                    if expand and nk not in seen:
                        seen.add(nk)
                        states += 1
                        frontier.append((hist + (ops,), nk))
                        if sample is None and len(hist) >= 2:
                            sample = dict(base, history=[list(x) for x in hist + (ops,)])
                else:
                    try:
                        w.conn.abort()
                    except Exception as e:      # noqa
                        report('abort', 'exc-' + type(e).__name__, 'abort raised %r' % (e,))
                        continue
                    guards['aborts'] += 1
                    compared += 1
                    try:
                        got = O.contents(ctx, w.t)
                    except Exception as e:      # noqa
                        got = ('exc', type(e).__name__, str(e))
                    if got != committed:
                        report('abort', 'contents', 'after abort of %r the writer shows %r, last '
                               'committed %r' % (ops, got, committed))
                        continue
                    try:
                        ca = C.dump(w.t, tree)
                        if ca != key[0]:
                            report('abort', 'shape', 'after abort of %r the writer is %r, committed '
                                   'shape %r' % (ops, ca, key[0]))
                        if tree:
                            w.t._check()
                    except Exception as e:      # noqa
                        report('abort', 'exc-' + type(e).__name__, 'after abort: %r' % (e,))
                    # the nodes the aborted transaction had changed are ghosts now.  A DIFFERENT transaction
                    # that arrives before anything has read them again (the checks above reload every
                    # node, so this starts over): abort, then - untouched - one more operation, commit
                    if follow_aborts:
                        for ops2 in follow_ops:
                            w2 = rebuild(hist)
                            try:
                                w2.run(ops)
                                w2.conn.abort()
                                m2 = w2.run(ops2)
                            except Exception as e:      # noqa
                                if not isinstance(e, KeyError):
                                    report('abort', 'exc-' + type(e).__name__,
                                           'abort of %r, then %r: %r' % (ops, ops2, e))
                                continue
                            flags['lone'] = lone_inline(w2.t, tree)
                            try:
                                w2.commit(m2)
                            except Exception as e:      # noqa
                                report('commit', 'exc-' + type(e).__name__,
                                       'abort of %r, then commit of %r raised %r' % (ops, ops2, e))
                                continue
                            guards['commit_after_untouched_abort'] += 1
                            transitions += 1
                            compared += 1
                            verify_reader(ctx, w2, sizes, m2.contents(), report, guards,
                                          'abort of %r, then (nothing read in between) commit of %r' % (ops, ops2))
                        flags['lone'] = False
                    # and the writer is still usable: the same transaction now commits fine
                    try:
                        m2 = w.run(ops)
                        flags['lone'] = lone_inline(w.t, tree)
                        w.commit(m2)
                        verify_reader(ctx, w, sizes, m2.contents(), report, guards,
                                      'commit of %r after an abort of the same ops' % (ops,))
                    except Exception as e:      # noqa
                        report('abort', 'exc-' + type(e).__name__, 'retry after abort: %r' % (e,))
    return dict(states=states, transitions=transitions, compared=compared,
                evaluations=transitions, distinct=states, exhaustive=not rep.full,
                guards=dict(guards), outcomes=dict(outcomes), violations=rep.all(), sample=sample)


def mutable_job(fam, kind, impl, sizes, n):
    """Object-valued mappings: a stored MUTABLE value (a list) is changed in place and stored again
    under its key - the same object, so only the announcement of the change distinguishes the two
    transactions.  For every state and every present key: commit -> fresh reader sees the change;
    abort -> the writer shows the committed value again."""
    ctx = O.Ctx(fam, kind, impl)
    if sizes:
        F.set_sizes(fam, *sizes)
    ex = S.explorer(fam, kind, impl, sizes, n, 'centred', 'C04')
    states = []
    ex.state_monitors.append(lambda e, hist, t, model, c: states.append((hist, model.copy())))
    ex.run()
    from ..report import Reporter
    rep = Reporter('C04')
    guards = collections.Counter()
    base = dict(mutable=True, fam=fam, kind=kind, impl=impl, sizes=sizes, n=n)
    transitions = 0
    sample = None

    def build(hist):
        w = World(ctx)
        for op in hist:
            if op[0] == 'setitem':
                w.t[op[1]] = [op[2]]
            else:
                O.fast_apply(ctx, w.t, op)
            w.conn.commit()
        return w

    for hist, model in states:
        if rep.full:
            break
        for k in model.keylist():
            for action in ('commit', 'abort'):
                slot.set(('C04mut', fam, kind, impl, sizes, hist, k, action))
                w = build(hist)
                transitions += 1
                sig = dict(fam=fam, kind=kind, impl=impl, site='mutable-value', action=action)
                case = dict(base, history=[list(o) for o in hist], key=k, action=action)
                try:
                    before = list(w.t[k])
                    v = w.t[k]
                    v.append('x')
                    w.t[k] = v          # the same object again
                    if action == 'commit':
                        w.conn.commit()
                        guards['mutable_commits'] += 1
                        conn, r = M.open_tree(w.storage, w.t._p_oid)
                        got = r[k]
                        if got != before + ['x']:
                            rep.add(dict(sig, cls='reader-value'), case,
                                    'value of %r changed in place and stored again: reader sees %r, '
                                    'expected %r' % (k, got, before + ['x']))
                    else:
                        w.conn.abort()
                        guards['mutable_aborts'] += 1
                        got = w.t[k]
                        if got != before:
                            rep.add(dict(sig, cls='abort-value'), case,
                                    'after abort the writer shows %r for %r, committed %r' % (got, k, before))
                except Exception as e:      # noqa
                    rep.add(dict(sig, cls='exc-' + type(e).__name__), case, repr(e))
                if sample is None and len(hist) >= 2:
                    sample = case
    return dict(states=len(states), transitions=transitions, compared=transitions,
                evaluations=transitions, distinct=len(states), exhaustive=not rep.full,
                guards=dict(guards), outcomes={}, violations=rep.all(), sample=sample)


def script_job(fam, kind, impl):
    """Default node sizes: grow one key per transaction across the embedded -> split boundary,
    replace values, thin back below it; reader verified after every commit."""
    F.reset_sizes(fam)      # an earlier job in this worker may have changed them
    ctx = O.Ctx(fam, kind, impl)
    cls = ctx.cls
    leaf = cls.max_leaf_size
    guards = collections.Counter()
    violations = []
    n = leaf + 3
    kt = fam[0]
    if kt == 'f':
        import struct
        keys = [struct.pack('>H', 300 + 3 * i) for i in range(n)]
    else:
        keys = [10 + 3 * i for i in range(n)]
    vals = F.values(fam)
    w = World(ctx)
    base = dict(fam=fam, kind=kind, impl=impl, script='default-size')
    step = [0]

    def report(site, cls_, detail):
        violations.append(dict(prop='C04', sig=dict(fam=fam, kind=kind, impl=impl, site=site,
                                                    cls=cls_, action='script'),
                               case=dict(base, step=step[0]), detail=detail))
    script = []
    for i, k in enumerate(keys):
        script.append(('setitem', k, vals[i % 2]) if ctx.is_map else ('add', k))
    if ctx.is_map:
        for i in (0, leaf // 2, n - 1):
            script.append(('setitem', keys[i], vals[(i + 1) % 2]))
    for k in keys[: n // 2 + 2]:
        script.append(('delitem', k) if ctx.is_map else ('remove', k))
    was_embedded = True
    transitions = 0
    for op in script:
        step[0] += 1
        m = w.run((op,))
        w.commit(m)
        transitions += 1
        cr = verify_reader(ctx, w, None, m.contents(), report, guards, 'script step %d %r' % (step[0], op))
        if cr is None:
            break
        if was_embedded and cr[0] not in ('I', 'E'):
            guards['embedded_to_split'] += 1
            was_embedded = False
        # abort of a further change restores the committed contents
        probe = ('setitem', keys[-1], vals[0]) if ctx.is_map else ('add', keys[-1])
        w.run((probe, ('clear',)))
        w.conn.abort()
        if O.contents(ctx, w.t) != m.contents():
            report('abort', 'contents', 'script step %d: abort did not restore' % step[0])
            break
        guards['aborts'] += 1
    guards['commits'] += transitions
    return dict(states=transitions + 1, transitions=transitions, compared=transitions,
                evaluations=transitions, distinct=transitions, exhaustive=True, guards=dict(guards),
                violations=violations, sample=dict(base, script=[list(o) for o in script[:4]] + ['...']))


def replay(case):
    fam, kind, impl = case['fam'], case['kind'], case['impl']
    if case.get('mutable'):
        r = mutable_job(fam, kind, impl, case.get('sizes') and tuple(case['sizes']), case['n'])
        vs = [v for v in r['violations'] if v['case'].get('history') == case.get('history')
              and v['case'].get('key') == case.get('key') and v['case'].get('action') == case.get('action')]
        return dict(violations=vs)
    if case.get('script'):
        r = script_job(fam, kind, impl)
        return dict(violations=r['violations'])
    ctx = O.Ctx(fam, kind, impl)
    if case.get('sizes'):
        F.set_sizes(fam, *case['sizes'])
    w = World(ctx)
    for ops in case['history']:
        ops = tuple(S._tup(o) for o in ops)
        w.commit(w.run(ops))
    ops = tuple(S._tup(o) for o in case['ops'])
    committed = w.model.contents()
    out = []
    guards = collections.Counter()

    def report(site, cls, detail):
        out.append(dict(prop='C04', sig=dict(site=site, cls=cls), case=case, detail=detail))
    m = w.run(ops)
    if case['action'] == 'commit':
        try:
            w.commit(m)
            verify_reader(ctx, w, case.get('sizes'), m.contents(), report, guards, 'replay')
        except Exception as e:      # noqa
            report('commit', 'exc-' + type(e).__name__, repr(e))
    else:
        w.conn.abort()
        got = O.outcome(O.contents, ctx, w.t)
        if got != ('ok', committed):
            report('abort', 'contents', 'writer shows %r, committed %r' % (got, committed))
        else:
            try:
                m2 = w.run(ops)
                w.commit(m2)
                verify_reader(ctx, w, case.get('sizes'), m2.contents(), report, guards, 'retry')
            except Exception as e:      # noqa
                report('abort', 'exc-' + type(e).__name__, repr(e))
    return dict(violations=out)
