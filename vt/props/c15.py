"""C15 - mutating while iterating never crashes or damages the container.

E3, deviation-bounded: from every state of a shape space open an iterator or a lazy
sequence; the default schedule drives it to its end; a deviation is one mutation inserted
before step p.  All schedules with 0, 1 and 2 deviations (3 in thorough) are enumerated.
"""
import collections
import itertools

from .. import fam as F
from .. import ops as O
from .. import space as S
from .. import canon as C
from .. import slot
from ..models import model_for
from ..report import Reporter

LEVEL = 'exploration'
RULE = ('for every reachable shape (BFS fixed point) and every iterator / lazy-sequence form '
        '(iter, iterkeys, itervalues, iteritems, keys / values / items with no bound, a present '
        'bound, a gap bound) the default schedule steps it to exhaustion (sequences: indexes '
        'ascending, then len, then descending; and indexed from the end: -1, -2, ... then len, then -1); every schedule that deviates from it by at most D '
        'mutations (insert or delete of a universe key, pop, clear, dropping the last reference to '
        'the container) placed before any step is executed; each step must yield an entry of the '
        'right form (a key of the universe / the value that key carries / the pair), end the '
        'iteration, or raise RuntimeError / IndexError; afterwards the container must be sound and '
        'hold exactly the contents implied by the mutations; the C jobs run under AddressSanitizer; '
        'evaluations = schedules executed; distinct_nontrivial = schedules with >= 1 deviation')
TRUSTED = ['CPython 3.12', 'persistent 6.8', 'gcc libasan/libubsan', 'vt harness']
ASSUMPTIONS = ['deviation bound 2 (quick) / 3 (thorough) over a reduced mutation alphabet for >= 2 '
               'deviations; key universes of 4 (quick) / 5 keys; node sizes 2/2']


def bounds(tier):
    # (wave 6: iterators that have raised are asked again twice)
    return ('quick: II, OO, fs x 4 kinds x 2 implementations, N=4 @2/2: all 1-deviation schedules with the '
            'full mutation alphabet, all 2-deviation schedules with the reduced alphabet on 4 iterator '
            'forms; thinned deep trees (8 keys built ascending @2/2, every deletion subset): all '
            '1-deviation schedules with the reduced alphabet on 4 forms; thorough: six families; C: 3 deviations '
            'on N=4, 2 on N=5; Python: 2 on N=4, 1 on N=5; thinned trees of 10 (C) / 9 (Py) keys asc and desc')


def required_guards(tier):
    return ['schedules', 'dev0', 'dev1', 'dev2', 'next_after_exception', 'step:yield', 'step:StopIteration',
            'step:IndexError', 'step:RuntimeError', 'mut:clear', 'mut:drop', 'mut:delete', 'mut:insert',
            'emptied_under_cursor', 'height>=2']


def configs(tier):
    """(fam, kind, impl, sizes, n, D, thin, weight)"""
    out = []
    for fam in ('II', 'OO', 'fs') if tier == 'quick' else ('II', 'OO', 'fs', 'LF', 'QQ', 'UO'):
        for impl in F.IMPLS:
            c = impl == 'c'
            for kind in F.KINDS:
                tree = kind in F.TREE_KINDS
                sz = (2, 2) if tree else None
                if tier == 'quick':
                    out.append((fam, kind, impl, sz, 4, 2, None, (30 if tree else 3) * (1 if c else 8)))
                    if tree and fam != 'fs':
                        # thinned deep trees (3+ interior levels): one deviation, reduced alphabet
                        out.append((fam, kind, impl, (2, 2), 8 if c else 7, 1, 'asc', 60))
                    continue
                # thorough: the third deviation on the small space, two on the larger one (C);
                # pure Python one size smaller
                if c:
                    out.append((fam, kind, impl, sz, 4, 3, None, 200 if tree else 20))
                    out.append((fam, kind, impl, sz, 5, 2, None, 150 if tree else 10))
                else:
                    out.append((fam, kind, impl, sz, 4, 2, None, 150 if tree else 10))
                    out.append((fam, kind, impl, sz, 5, 1, None, 150 if tree else 10))
                if tree:
                    for order in ('asc', 'desc'):
                        out.append((fam, kind, impl, (2, 2), 10 if c else 9, 1, order, 250))
    return out


def jobs(tier):
    return [{'fn': 'job', 'weight': w, 'group': '%s/%s' % (impl, kind),
             'flavour': 'asan' if impl == 'c' else 'plain',
             'args': dict(fam=fam, kind=kind, impl=impl, sizes=sizes, n=n, D=D, thin=thin)}
            for fam, kind, impl, sizes, n, D, thin, w in configs(tier)]


# --------------------------------------------------------------------------

def valof(fam, grid, k):
    i = grid.index(k)
    vt = fam[1]
    if vt in 'IULQ':
        return 100 + i
    if vt == 'F':
        return 0.5 * i + 8.0
    if vt == 's':
        return b'v%05d' % i
    return 'v%d' % i


def forms(ctx, t, keys, grid):
    """name -> (opener, kind of yielded thing, is_sequence)"""
    out = collections.OrderedDict()
    present_bound = keys[1]
    gap_bound = grid[2]
    out['iter'] = (lambda t: iter(t), 'key', False)
    if hasattr(t, 'iterkeys'):
        out['iterkeys'] = (lambda t: t.iterkeys(), 'key', False)
        out['iterkeys(min=key)'] = (lambda t: t.iterkeys(present_bound), 'key', False)
    if ctx.is_map:
        out['itervalues'] = (lambda t: t.itervalues(), 'value', False)
        out['iteritems'] = (lambda t: t.iteritems(), 'item', False)
        out['iteritems(min=gap)'] = (lambda t: t.iteritems(gap_bound), 'item', False)
    out['keys()'] = (lambda t: t.keys(), 'key', True)
    out['keys(min=key)'] = (lambda t: t.keys(present_bound), 'key', True)
    out['keys(max=gap)'] = (lambda t: t.keys(None, gap_bound), 'key', True)
    if ctx.is_map:
        out['values()'] = (lambda t: t.values(), 'value', True)
        out['items()'] = (lambda t: t.items(), 'item', True)
        out['items(min=gap)'] = (lambda t: t.items(gap_bound), 'item', True)
    # the same sequences indexed from the end: seq[-1], seq[-2], ... until IndexError, len, seq[-1]
    out['keys()[-i]'] = (lambda t: t.keys(), 'key', 'neg')
    out['keys(max=gap)[-i]'] = (lambda t: t.keys(None, gap_bound), 'key', 'neg')
    if ctx.is_map:
        out['items()[-i]'] = (lambda t: t.items(), 'item', 'neg')
    return out


REDUCED_FORMS = ('iter', 'iteritems', 'keys()', 'items()', 'keys()[-i]')


def mutations(ctx, keys, grid, reduced):
    muts = []
    ins = grid
    dels = keys
    for k in dels:
        muts.append(('delete', k))
    for k in ins:
        muts.append(('insert', k))
    muts.append(('pop',))
    muts.append(('clear',))
    muts.append(('drop',))
    return muts


class Dropped(Exception):
    pass


def run_schedule(ctx, fam, hist, grid, form, devs, maxsteps, guards):
    """Execute one schedule.  -> (problem | None, trace)"""
    from BTrees.check import check as bcheck
    t = ctx.new()
    for op in hist:
        O.fast_apply(ctx, t, op)
    model = {}
    for x in (t.items() if ctx.is_map else t.keys()):
        if ctx.is_map:
            model[x[0]] = x[1]
        else:
            model[x] = True
    opener, yields, is_seq = form
    holder = [t]
    it = opener(t)
    del t
    devs = dict_of_devs(devs)
    trace = []
    step = [0]
    dropped = [False]

    def mutate(m):
        if dropped[0]:
            return
        tt = holder[0]
        guards['mut:' + m[0]] += 1
        if m[0] == 'delete':
            if m[1] in model:
                if ctx.is_map:
                    del tt[m[1]]
                else:
                    tt.remove(m[1])
                del model[m[1]]
        elif m[0] == 'insert':
            if ctx.is_map:
                tt[m[1]] = valof(fam, grid, m[1])
                model[m[1]] = valof(fam, grid, m[1])
            else:
                tt.add(m[1])
                model[m[1]] = True
        elif m[0] == 'pop':
            if model:
                k = min(model, key=F.skey)
                if ctx.is_map:
                    if hasattr(tt, 'popitem'):
                        tt.popitem()
                    else:
                        tt.pop(k)
                else:
                    tt.pop()
                del model[k]
        elif m[0] == 'clear':
            tt.clear()
            model.clear()
        elif m[0] == 'drop':
            holder[0] = None
            dropped[0] = True

    failure = []

    def before_step():
        for m in devs.get(step[0], ()):
            try:
                mutate(m)
            except Exception as e:      # noqa - a mutation that fails is a finding, not a harness error
                failure.append('mutation %r raised %s: %s' % (m, type(e).__name__, e))
        step[0] += 1

    def judge(r):
        """r: ('ok', value) | ('exc', name)"""
        if r[0] == 'exc':
            guards['step:' + r[1]] += 1
            # an iterator ends with StopIteration; indexing a sequence past its end is IndexError
            # (a StopIteration escaping from seq[i] silently ends the caller's own loop)
            if r[1] in (('IndexError', 'RuntimeError') if is_seq else
                        ('StopIteration', 'IndexError', 'RuntimeError')):
                return None
            return 'step raised %s' % r[1]
        guards['step:yield'] += 1
        v = r[1]
        try:
            if yields == 'key':
                ok = v in grid
            elif yields == 'value':
                ok = any(v == valof(fam, grid, k) for k in grid)
            else:
                ok = isinstance(v, tuple) and len(v) == 2 and v[0] in grid and \
                    v[1] == valof(fam, grid, v[0])
        except Exception:       # noqa
            ok = False
        return None if ok else 'step yielded %r, which never was an entry' % (v,)

    problem = None
    if not is_seq:
        # an iterator that has raised (StopIteration, RuntimeError, IndexError) is asked again, twice:
        # a caller that handles the error and carries on must get an entry, the end or an error again
        after_exc = 0
        for _ in range(maxsteps + 3):
            before_step()
            r = O.outcome(next, it)
            trace.append(r if r[0] == 'exc' else ('ok',))
            problem = judge(r)
            if problem:
                break
            if r[0] == 'exc' or after_exc:
                after_exc += 1
                guards['next_after_exception'] += 1
                if after_exc > 2:
                    break
    elif is_seq == 'neg':
        i = -1
        while -i <= maxsteps and not problem:
            before_step()
            r = O.outcome(lambda: it[i])
            trace.append(r if r[0] == 'exc' else ('ok',))
            problem = judge(r)
            if r[0] == 'exc':
                break
            i -= 1
        if not problem:
            before_step()
            r = O.outcome(len, it)
            if r[0] == 'exc' and r[1] not in ('RuntimeError', 'IndexError'):
                problem = 'len() raised %s' % r[1]
        if not problem:
            before_step()
            r = O.outcome(lambda: it[-1])
            trace.append(r if r[0] == 'exc' else ('ok',))
            problem = judge(r)
    else:
        i = 0
        while i < maxsteps and not problem:
            before_step()
            r = O.outcome(lambda: it[i])
            trace.append(r if r[0] == 'exc' else ('ok',))
            problem = judge(r)
            if r[0] == 'exc':
                break
            i += 1
        if not problem:
            before_step()
            r = O.outcome(len, it)
            if r[0] == 'exc' and r[1] not in ('RuntimeError', 'IndexError'):
                problem = 'len() raised %s' % r[1]
            j = min(r[1], maxsteps) - 1 if r[0] == 'ok' else -1
            while j >= 0 and not problem:
                before_step()
                r = O.outcome(lambda: it[j])
                trace.append(r if r[0] == 'exc' else ('ok',))
                problem = judge(r)
                j -= 1
    if failure and problem is None:
        problem = failure[0]
    # the cursor is still alive here; afterwards the container must be sound
    tt = holder[0]
    if problem is None and tt is not None:
        try:
            got = list(tt.items()) if ctx.is_map else list(tt.keys())
            want = sorted(model.items(), key=lambda kv: F.skey(kv[0])) if ctx.is_map else \
                sorted(model, key=F.skey)
            if got != want:
                problem = 'afterwards the container holds %r, the mutations imply %r' % (got, want)
            elif ctx.is_tree:
                probs = C.walk(C.dump(tt, True), ctx.is_map)
                tt._check()
                bcheck(tt)
                if probs:
                    problem = 'afterwards the tree is damaged: %s' % '; '.join(probs[:3])
        except Exception as e:      # noqa
            problem = 'afterwards the container is broken: %r' % (e,)
    del it
    return problem, trace


def dict_of_devs(devs):
    d = collections.defaultdict(list)
    for p, m in devs:
        d[p].append(m)
    return d


def job(fam, kind, impl, sizes, n, D, thin=None):
    ctx = O.Ctx(fam, kind, impl)
    ex = S.explorer(fam, kind, impl, sizes, n, 'centred', 'C15', thin=thin)
    keys, grid = ex.keys, ex.grid
    states = []
    ex.state_monitors.append(lambda e, hist, t, model, c: states.append((hist, model.copy(), c)))
    # values must be a function of the key: rebuild the alphabet with valof()
    alpha = []
    for op in ex.alphabet:
        if op[0] == 'setitem':
            alpha.append(('setitem', op[1], valof(fam, grid, op[1])))
        else:
            alpha.append(op)
    ex.alphabet = alpha
    if thin:
        # deep thinned trees: scripted build with key-determined values, then all deletions
        ex.prefix = tuple((('setitem', op[1], valof(fam, grid, op[1])) if op[0] == 'setitem' else op)
                          for op in ex.prefix)
    ex.run()
    rep = Reporter('C15')
    guards = collections.Counter(ex.guards)
    evaluations = 0
    distinct = 0
    sample = None
    maxsteps = n + 3
    base = dict(fam=fam, kind=kind, impl=impl, sizes=sizes, n=n, D=D, thin=thin,
                flavour='asan' if impl == 'c' else 'plain')
    full = mutations(ctx, keys, grid, False)
    reduced = [m for m in full if m[0] not in ('insert', 'pop') or m[1:] == (grid[0],)]
    probe = ctx.new()
    fdict = forms(ctx, probe, keys, grid)
    for hist, model, c in states:
        if rep.full:
            break
        nsteps = 2 * len(model.keylist()) + 3
        for fname, form in fdict.items():
            if thin and fname not in REDUCED_FORMS:
                continue
            positions = list(range(0, min(nsteps, 2 * maxsteps) + 1))
            scheds = [()]
            scheds += [((p, m),) for p in positions for m in (reduced if thin else full)]
            if fname in REDUCED_FORMS and not (ctx.is_map and fname in ('iter', 'keys()')):
                for k in range(2, D + 1):
                    if k >= 2 and fname == 'keys()[-i]' and ctx.is_map:
                        continue
                    if k == 3 and fname not in ('iter', 'items()'):
                        continue
                    for ps in itertools.combinations_with_replacement(positions[:maxsteps + 2], k):
                        for ms in itertools.product(reduced, repeat=k):
                            if any(m[0] == 'drop' for m in ms[:-1]):
                                continue
                            scheds.append(tuple(zip(ps, ms)))
            for devs in scheds:
                slot.set(('C15', fam, kind, impl, hist, fname, devs))
                evaluations += 1
                guards['schedules'] += 1
                guards['dev%d' % len(devs)] += 1
                if devs:
                    distinct += 1
                if any(m[0] in ('clear', 'delete', 'pop') for p, m in devs):
                    guards['emptied_under_cursor'] += 1
                problem, trace = run_schedule(ctx, fam, hist, grid, form, devs, maxsteps, guards)
                if problem:
                    rep.add(dict(fam=fam, kind=kind, impl=impl, site=fname, ndev=len(devs),
                                 cls=problem.split(' ')[0] + ' ' + problem.split(' ')[1],
                                 muts='+'.join(m[0] for p, m in devs)),
                            dict(base, history=[list(o) for o in hist], form=fname,
                                 devs=[[p, list(m)] for p, m in devs]),
                            '%s on %s, schedule %r: %s (trace %r)' % (fname, kind, devs, problem, trace))
                    if rep.full:
                        break
                if sample is None and len(devs) == 2 and fname == 'items()' and len(hist) >= 3:
                    sample = dict(base, history=[list(o) for o in hist], form=fname,
                                  devs=[[p, list(m)] for p, m in devs], trace=[list(x) for x in trace])
            if rep.full:
                break
    return dict(evaluations=evaluations, distinct=distinct, exhaustive=not rep.full,
                guards=dict(guards), violations=rep.all(), sample=sample)


def replay(case):
    fam, kind, impl = case['fam'], case['kind'], case['impl']
    ctx = O.Ctx(fam, kind, impl)
    if case.get('sizes'):
        F.set_sizes(fam, *case['sizes'])
    keys, grid = F.universe(fam, case['n'], 'centred')
    guards = collections.Counter()
    fdict = forms(ctx, ctx.new(), keys, grid)
    hist = [S._tup(o) for o in case['history']]
    devs = tuple((p, S._tup(m)) for p, m in case['devs'])
    problem, trace = run_schedule(ctx, fam, hist, grid, fdict[case['form']], devs, case['n'] + 3, guards)
    out = []
    if problem:
        out.append(dict(prop='C15', sig=dict(site=case['form'], cls=problem.split(' ')[0]), case=case,
                        detail='%s (trace %r)' % (problem, trace)))
    return dict(violations=out)
