"""C14 - an exception raised by a key comparison leaves the container intact.

E3: object-keyed families x both implementations x every state of a shape space x every
operation kind x every index n <= number of comparisons the operation performs: the n-th
comparison raises; the exception must reach the caller, the container must hold its
previous contents or the completed change, be sound, and behave normally afterwards.
"""
import collections

from .. import fam as F
from .. import ops as O
from .. import space as S
from .. import canon as C
from .. import kkey
from .. import slot
from ..kkey import K, CmpFault
from ..models import model_for
from ..report import Reporter

LEVEL = 'fault_enumeration'
RULE = ('for every reachable shape (BFS fixed point over an instrumented-key universe) and every '
        'operation of the fault alphabet (lookups, insert of every absent gap key, replace, delete, '
        'pop, setdefault, range searches with present / gap / outside bounds, minKey / maxKey, update, '
        'set algebra with a second container, in-place operators, conflict merge) the operation is '
        'first run to count its key comparisons c and then re-run from a rebuilt state once for '
        'every n < c with the n-th comparison raising a private exception; checked: the exception '
        'reaches the caller, contents == before or == completed (any prefix for multi-key updates), '
        '_check / check / independent walk pass, a follow-up workload agrees with the model; '
        'evaluations = faulted executions; distinct_nontrivial = distinct (state, op, n)')
TRUSTED = ['CPython 3.12', 'persistent 6.8', 'vt harness (instrumented key class, explorer, models)']
ASSUMPTIONS = ['one fault per operation; key universes of <= 6 keys; node sizes 2/2 and 3/2',
               'the failing comparison raises a private Exception subclass (not TypeError)']


def bounds(tier):
    return ('quick: OO and OI, 4 kinds, both implementations: trees N=5 @2/2 (C) / N=4 (Py), N=4 @3/2, '
            'leaves N=4; thinning space of 8 keys; pin audit (no STICKY node) after every faulted call (C); thorough: all five object-key families, N=6 (C) / 5 (Py)')


def required_guards(tier):
    return ['faults_injected', 'fault_reached_caller', 'unchanged_after_fault', 'completed_after_fault',
            'height>=3', 'kind:insert', 'kind:delete', 'kind:range', 'kind:setop', 'kind:merge',
            'kind:lookup', 'followup_ok', 'reference_audits', 'pin_audits']


def configs(tier):
    out = []
    fams = ['OO', 'OI'] if tier == 'quick' else ['OO', 'OI', 'OL', 'OU', 'OQ']
    for fam in fams:
        for impl in F.IMPLS:
            c = impl == 'c'
            for kind in F.KINDS:
                tree = kind in F.TREE_KINDS
                if tree:
                    if tier == 'quick':
                        out.append((fam, kind, impl, (2, 2), 5 if c else 4, None, 30 if c else 60))
                        out.append((fam, kind, impl, (3, 2), 4, None, 5 if c else 20))
                        out.append((fam, kind, impl, (2, 2), 7 if c else 6, 'asc', 20 if c else 60))
                    else:
                        out.append((fam, kind, impl, (2, 2), 6 if c else 5, None, 300))
                        out.append((fam, kind, impl, (3, 2), 5, None, 50))
                        out.append((fam, kind, impl, (2, 2), 9, 'asc', 100))
                        out.append((fam, kind, impl, (2, 2), 9, 'desc', 100))
                else:
                    out.append((fam, kind, impl, None, 4 if tier == 'quick' else 5, None, 3))
    return out


def jobs(tier):
    return [{'fn': 'job', 'weight': w, 'group': '%s/%s' % (impl, kind),
             'args': dict(fam=fam, kind=kind, impl=impl, sizes=sizes, n=n, thin=thin)}
            for fam, kind, impl, sizes, n, thin, w in configs(tier)]


# --------------------------------------------------------------------------

def fault_ops(ctx, keys, grid, vals, model):
    """-> list of (name, kindtag, prepare) where prepare(t) returns (thunk, model_effect, multi)."""
    present = model.keylist()
    absent = [g for g in grid if g not in present]
    ops = []
    ismap = ctx.is_map
    v0, v1 = vals

    def simple(name, tag, op, multi=False):
        def prepare(t, _op=op):
            if _op[0] in ('update', 'ior', 'iand', 'isub', 'ixor'):
                arg = O.build_arg(ctx, _op[1], _op[2])     # built before the points are armed
                return (lambda: O.apply_sut(ctx, t, _op, arg)), _op, multi
            return (lambda: O.apply_sut(ctx, t, _op)), _op, multi
        ops.append((name, tag, prepare))
    probe_keys = (present[:1] + present[-1:] + absent[:1] + absent[len(absent) // 2:len(absent) // 2 + 1]
                  + absent[-1:])
    for k in probe_keys:
        simple('contains', 'lookup', ('contains', k))
        if ismap:
            simple('get', 'lookup', ('get', k))
            simple('getitem', 'lookup', ('getitem', k))
    for k in absent:
        simple('insert', 'insert', ('setitem', k, v0) if ismap else ('add', k))
    for k in absent[:2]:
        if ismap:
            simple('setdefault-new', 'insert', ('setdefault', k, v0))
    for k in present:
        simple('delete', 'delete', ('delitem', k) if ismap else ('remove', k))
        if ismap:
            simple('replace', 'replace', ('setitem', k, v1))
            simple('pop', 'delete', ('pop', k))
            simple('setdefault-old', 'lookup', ('setdefault', k, v1))
        else:
            simple('discard', 'delete', ('discard', k))
    for b in probe_keys:
        simple('minKey', 'range', ('minKey', b))
        simple('maxKey', 'range', ('maxKey', b))

    def rng(lo, hi):
        def prepare(t):
            kw = {}
            if lo is not None:
                kw['min'] = lo
            if hi is not None:
                kw['max'] = hi
            return (lambda: O.outcome(lambda: list(t.keys(**kw)))), None, False
        ops.append(('keys-range', 'range', prepare))
    for lo in probe_keys[:3] + [None]:
        for hi in probe_keys[2:] + [None]:
            if lo is not None or hi is not None:
                rng(lo, hi)
    # multi-key update
    if ismap:
        simple('update', 'update', ('update', 'pairs', tuple((k, v0) for k in reversed(keys))), True)
    else:
        simple('update', 'update', ('update', 'list', tuple(reversed(keys))), True)
        for ip in ('ior', 'iand', 'isub', 'ixor'):
            simple(ip, 'setop', (ip, 'list', tuple(keys[::2])), True)
            simple(ip + '-same', 'setop', (ip, 'same', tuple(keys[1::2])), True)
            # a plain iterable: unsorted, a key twice (sorted / de-duplicated by comparisons too)
            simple(ip + '-duplist', 'setop', (ip, 'list', tuple(reversed(keys)) + tuple(keys[:2])), True)
    # set algebra with a second container (built before arming)
    mod = F.module(ctx.fam)
    sfx = 'Py' if ctx.impl == 'py' else ''
    for fname in ('union', 'intersection', 'difference'):
        for other_keys in (tuple(keys[::2]), tuple(grid[::3])):
            def prepare(t, fname=fname, other_keys=other_keys):
                other = ctx.cls()
                for k in other_keys:
                    if ismap:
                        other[k] = v0
                    else:
                        other.add(k)
                fn = getattr(mod, fname + sfx)
                return (lambda: O.outcome(lambda: list(fn(t, other)))), None, False
            ops.append((fname, 'setop', prepare))
        # ... and with a plain iterable (unsorted, keys twice, gap keys) on either side
        for order in (0, 1):
            if fname == 'difference' and order == 1:
                continue

            def prepare(t, fname=fname, order=order):
                other = list(reversed(grid[::2])) + list(grid[:3]) + list(keys[-1:])
                fn = getattr(mod, fname + sfx)
                if order == 0:
                    return (lambda: O.outcome(lambda: list(fn(t, other)))), None, False
                return (lambda: O.outcome(lambda: list(fn(other, t)))), None, False
            ops.append((fname + '-iterable', 'setop', prepare))
    return ops


def merge_ops(ctx, keys, vals):
    """Conflict merges over K keys (leaf kinds only): (name, thunk factory)."""
    cls = ctx.cls
    ismap = ctx.is_map

    def flat(ks):
        if ismap:
            return tuple(x for k in ks for x in (k, vals[0]))
        return tuple(ks)
    k = keys
    triples = [
        ('merge-inserts', k[1:3], k[0:3], k[1:4]),
        ('merge-delete+insert', k[0:3], k[0:2], k[0:4]),
        ('merge-conflict', k[0:2], k[0:3], k[0:3]),
        ('merge-all', k[::2], k[:-1], k[::2] + k[-1:]),
    ]
    out = []
    for name, o, c, n in triples:
        o, c, n = [sorted(x, key=F.skey) for x in (o, c, n)]

        def thunk(o=o, c=c, n=n):
            from BTrees.Interfaces import BTreesConflictError
            try:
                return ('ok', cls()._p_resolveConflict((flat(o),), (flat(c),), (flat(n),)))
            except BTreesConflictError as e:
                return ('ok', ('conflict', e.reason))
            except Exception as e:      # noqa
                return ('exc', type(e).__name__)
        out.append((name, thunk))
    return out


def ints(contents, ismap):
    if ismap:
        return [(k.v, v) for k, v in contents]
    return [k.v for k in contents]


def job(fam, kind, impl, sizes, n, thin):
    import gc
    gc.disable()        # reference counts must only move because of the operation under test
    try:
        return _job(fam, kind, impl, sizes, n, thin)
    finally:
        gc.enable()
        gc.collect()


def _job(fam, kind, impl, sizes, n, thin):
    from BTrees.check import check as bcheck
    ctx = O.Ctx(fam, kind, impl)
    ex = S.explorer(fam, kind, impl, sizes, n, 'K', 'C14', thin=thin)
    keys, grid, vals = ex.keys, ex.grid, ex.vals
    states = []
    ex.state_monitors.append(lambda e, hist, t, model, c: states.append((hist, model.copy(), c)))
    ex.run()
    rep = Reporter('C14')
    guards = collections.Counter(ex.guards)
    outcomes = collections.Counter()
    ismap, tree = ctx.is_map, ctx.is_tree
    evaluations = 0
    sample = None
    base = dict(fam=fam, kind=kind, impl=impl, sizes=sizes, n=n, thin=thin)

    def rebuild(hist):
        t = ctx.new()
        for op in hist:
            O.fast_apply(ctx, t, op)
        return t

    from .c16 import excess_map
    tts = (F.cls(fam, 'BTree', 'c'), F.cls(fam, 'TreeSet', 'c'))
    lts = (F.cls(fam, 'Bucket', 'c'), F.cls(fam, 'Set', 'c'))

    def excess(t):
        return excess_map([t], tts, lts, (K,))

    def followup(t, start_contents):
        """Insert every key, delete every second one, compare with a model."""
        m = model_for(kind, start_contents if ismap else start_contents)
        for i, k in enumerate(grid):
            op = ('setitem', k, vals[i % 2]) if ismap else ('add', k)
            O.apply_sut(ctx, t, op)
            O.apply_model(m, op)
        for k in grid[::2]:
            op = ('delitem', k) if ismap else ('remove', k)
            O.apply_sut(ctx, t, op)
            O.apply_model(m, op)
        return O.contents(ctx, t) == m.contents()

    for hist, model, c in states:
        if rep.full:
            break
        before = model.contents()
        for name, tag, prepare in fault_ops(ctx, keys, grid, vals, model):
            # counting run
            t = rebuild(hist)
            thunk, mop, multi = prepare(t)
            kkey.arm()
            r0 = thunk()
            cnt = kkey.disarm()
            if r0[0] == 'exc' and r0[1] == 'CmpFault':
                raise RuntimeError('fault fired in the counting run')
            completed = O.contents(ctx, t)
            allowed = [before, completed]
            if multi and mop is not None:
                # any prefix of a multi-key update is a legitimate stopping point
                m = model.copy()
                items = mop[2]
                orders = [list(items)]
                if not ismap and mop[1] == 'list':
                    # `^=` works through the distinct elements of a plain iterable in key order
                    orders.append(sorted(set(items), key=F.skey))
                for seq in orders:
                    for j in range(len(seq)):
                        sub = (mop[0], mop[1], tuple(seq[:j + 1]))
                        if mop[0] in ('update', 'ior', 'isub', 'ixor'):
                            mm = model.copy()
                            O.apply_model(mm, sub)
                            allowed.append(mm.contents())
                if mop[0] == 'iand':
                    # the C implementation clears and refills: any subset-prefix of the kept keys
                    kept = [k for k in items if k in set(model.keylist())]
                    for j in range(len(kept) + 1):
                        allowed.append(sorted(kept[:j], key=F.skey))
                    allowed.append([])
            outcomes['%s/%d-comparisons' % (tag, min(cnt, 9))] += 1
            for nth in range(cnt):
                slot.set(('C14', fam, kind, impl, sizes, hist, name, nth))
                t = rebuild(hist)
                thunk, _, _ = prepare(t)
                ex0 = excess(t) if impl == 'c' else None
                kkey.arm(fail_at=nth)
                r = thunk()
                kkey.disarm()
                if impl == 'c':
                    # nothing stays pinned against eviction after a failed operation (first look at the
                    # container: every later access would unpin the node it passes through)
                    pinned = C.sticky_nodes(t, tree)
                    guards['pin_audits'] += 1
                    if pinned:
                        rep.add(dict(fam=fam, kind=kind, impl=impl, site=name, tag=tag, cls='sticky'),
                                dict(base, history=[list(o) for o in _plain(hist)], op=name,
                                     op_detail=repr(mop), nth=nth, of=cnt),
                                'after comparison #%d of %d failed in %s these nodes are left pinned (STICKY): %s'
                                % (nth, cnt, name, ', '.join(pinned)))
                if ex0 is not None:
                    # reference oracle: whatever else refers to a node or key does so before and
                    # after the failed operation alike, so refcount - owning slots must not move
                    ex1 = excess(t)
                    moved = ['%s: %+d' % (ex1[i][0], ex1[i][1] - ex0[i][1])
                             for i in ex1 if i in ex0 and ex1[i][1] != ex0[i][1]]
                    guards['reference_audits'] += 1
                    if moved:
                        rep.add(dict(fam=fam, kind=kind, impl=impl, site=name, tag=tag, cls='references'),
                                dict(base, history=[list(o) for o in _plain(hist)], op=name,
                                     op_detail=repr(mop), nth=nth, of=cnt),
                                'after comparison #%d of %d failed in %s the reference counts of these '
                                'objects moved relative to the slots that own them: %s'
                                % (nth, cnt, name, '; '.join(moved[:5])))
                evaluations += 1
                guards['faults_injected'] += 1
                guards['kind:' + tag] += 1
                case = dict(base, history=[list(o) for o in _plain(hist)], op=name,
                            op_detail=repr(mop), nth=nth, of=cnt)
                sig = dict(fam=fam, kind=kind, impl=impl, site=name, tag=tag)
                if not kkey.S.fired:
                    rep.add(dict(sig, cls='nondeterministic-count'), case,
                            'comparison #%d was not reached on the second run (%d counted)' % (nth, cnt))
                    continue
                if r != ('exc', 'CmpFault'):
                    rep.add(dict(sig, cls='swallowed' if r[0] == 'ok' else 'replaced-by-' + str(r[1])),
                            case, 'comparison #%d of %d raised, the caller got %r' % (nth, cnt, r))
                else:
                    guards['fault_reached_caller'] += 1
                try:
                    after = O.contents(ctx, t)
                except Exception as e:      # noqa
                    rep.add(dict(sig, cls='unreadable-' + type(e).__name__), case,
                            'after the failed %s the container cannot be read: %r' % (name, e))
                    continue
                if after == before:
                    guards['unchanged_after_fault'] += 1
                elif after == completed:
                    guards['completed_after_fault'] += 1
                elif after not in allowed:
                    rep.add(dict(sig, cls='partial-change'), case,
                            'after comparison #%d of %d failed in %s %r: contents %r; before %r; '
                            'completed %r' % (nth, cnt, name, mop, ints(after, ismap),
                                              ints(before, ismap), ints(completed, ismap)))
                    continue
                if tree:
                    try:
                        probs = C.walk(C.dump(t, True), ismap)
                        t._check()
                        bcheck(t)
                    except Exception as e:      # noqa
                        probs = ['%s: %s' % (type(e).__name__, e)]
                    if probs:
                        rep.add(dict(sig, cls='unsound'), case,
                                'after comparison #%d of %d failed in %s %r the tree is damaged: %s'
                                % (nth, cnt, name, mop, '; '.join(probs[:3])))
                        continue
                try:
                    okf = followup(t, after)
                except Exception as e:      # noqa
                    okf = False
                if not okf:
                    rep.add(dict(sig, cls='followup'), case,
                            'the container misbehaves in a follow-up workload after the failed %s' % name)
                else:
                    guards['followup_ok'] += 1
                if sample is None and tag == 'delete' and nth >= 2 and after == before:
                    sample = case
        if not tree:
            for name, mthunk in merge_ops(ctx, keys, vals):
                kkey.arm()
                r0 = mthunk()
                cnt = kkey.disarm()
                for nth in range(cnt):
                    slot.set(('C14', fam, kind, impl, 'merge', name, nth))
                    kkey.arm(fail_at=nth)
                    r = mthunk()
                    kkey.disarm()
                    evaluations += 1
                    guards['faults_injected'] += 1
                    guards['kind:merge'] += 1
                    if r != ('exc', 'CmpFault'):
                        rep.add(dict(fam=fam, kind=kind, impl=impl, site=name, tag='merge',
                                     cls='swallowed' if r[0] == 'ok' else 'replaced-by-' + str(r[1])),
                                dict(base, op=name, nth=nth, of=cnt),
                                'comparison #%d of %d raised inside _p_resolveConflict, the caller '
                                'got %r' % (nth, cnt, r))
                    else:
                        guards['fault_reached_caller'] += 1
    return dict(evaluations=evaluations, distinct=evaluations, exhaustive=not rep.full,
                guards=dict(guards), outcomes=dict(outcomes), violations=rep.all(), sample=sample)


def _plain(hist):
    out = []
    for op in hist:
        out.append(tuple(('K', x.v) if isinstance(x, K) else x for x in op))
    return out


def replay(case):
    r = job(case['fam'], case['kind'], case['impl'], case['sizes'] and tuple(case['sizes']),
            case['n'], case.get('thin'))
    vs = [v for v in r['violations'] if v['case'].get('history') == case.get('history')
          and v['case'].get('op') == case.get('op') and v['case'].get('nth') == case.get('nth')]
    return dict(violations=vs)
