"""C09 - the C extension and the pure-Python fallback are interchangeable.

E2: lock-step product BFS.  State = (canonical form of the C container, canonical form of
the Python container).  Every op of the alphabet - the normal mutating/reading alphabet
plus an argument alphabet of every Python type, in-range and out-of-range integers, as
key, as value and as range bound - is applied to both in every reachable product state.
"""
import collections
import pickle

from .. import fam as F
from .. import ops as O
from .. import space as S
from .. import canon as C
from .. import slot

LEVEL = 'model_checking'
RULE = ('states = distinct reachable pairs (canonical C container, canonical Py container) under '
        'the alphabet (BFS fixed point); transitions = every op applied to both implementations '
        'in every state; compared: result equality, exception class, ordered contents, canonical '
        'shape, pickle bytes (protocol 2 and 3); plus the absolute rule for typed families: a read '
        'with an unrepresentable key reports absence, a write with an unrepresentable key/value '
        'raises TypeError and changes nothing; distinct_nontrivial = states')
TRUSTED = ['CPython 3.12', 'persistent 6.8', 'vt harness (lock-step explorer, canonical dump)']
ASSUMPTIONS = ['key universes of <= 5 keys, node sizes 2/2 (3/2 in thorough)',
               'byValue, message texts and the return value of update() are not compared']

TAG = '@@'
import os
CAP = int(os.environ.get('VERIF_CAP', '60'))


class Cmp:
    """A custom object with a total order against ints and itself."""

    def __init__(self, v):
        self.v = v

    def _v(self, o):
        return o.v if isinstance(o, Cmp) else o

    def __lt__(self, o):
        return self.v < self._v(o)

    def __gt__(self, o):
        return self.v > self._v(o)

    def __le__(self, o):
        return self.v <= self._v(o)

    def __ge__(self, o):
        return self.v >= self._v(o)

    def __eq__(self, o):
        return isinstance(o, (Cmp, int)) and self.v == self._v(o)

    def __hash__(self):
        return hash(self.v)

    def __repr__(self):
        return 'Cmp(%r)' % (self.v,)

    def __reduce__(self):
        return (Cmp, (self.v,))


class Plain:
    """Default comparison (object.__lt__ -> NotImplemented)."""

    def __repr__(self):
        return 'Plain()'


class IndexLike(Plain):
    """Not an int, but offers __index__ (like a numpy integer): not a datum of any typed family."""

    def __index__(self):
        return 3

    def __repr__(self):
        return 'IndexLike(3)'


class FloatLike(Plain):
    """Not a float, but offers __float__ (like decimal.Decimal)."""

    def __float__(self):
        return 2.5

    def __repr__(self):
        return 'FloatLike(2.5)'


_plain = Plain()


def materialize(x):
    if isinstance(x, tuple):
        if len(x) == 2 and x[0] == TAG:
            if x[1] == 'obj':
                return _plain
            if x[1] == 'cmp':
                return Cmp(0)
            if x[1] == 'nan':
                return float('nan')
            if x[1] == 'inf':
                return float('inf')
            if x[1] == 'ninf':
                return float('-inf')
            if x[1] == 'index':
                return IndexLike()
            if x[1] == 'floatable':
                return FloatLike()
            raise ValueError(x)
        return tuple(materialize(i) for i in x)
    return x


WEIRD = [
    -2**63 - 1, -2**63, -2**31 - 1, -2**31, -1, 0, 1, 2**31 - 1, 2**31, 2**32 - 1, 2**32,
    2**63 - 1, 2**63, 2**64 - 1, 2**64, 10**30, True, False,
    0.0, 1.0, 1.5, -1.5, 1e40, (TAG, 'inf'), (TAG, 'nan'),
    '', 'a', 'ab', '1.5', b'', b'ab', b'abcdef', b'abcdefg',
    None, (), (1, 2), (TAG, 'obj'), (TAG, 'cmp'), (TAG, 'index'), (TAG, 'floatable'),
]


def category(fam_type, x):
    """Coarse class of an argument relative to a typed domain ('I','U','L','Q','F','s','f','O')."""
    if isinstance(x, tuple) and len(x) == 2 and x[0] == TAG:
        return x[1]
    if isinstance(x, bool):
        return 'bool'
    if isinstance(x, int):
        if fam_type in F.INT_RANGE:
            lo, hi = F.INT_RANGE[fam_type]
            return 'int-in' if lo <= x <= hi else 'int-out'
        return 'int'
    if isinstance(x, float):
        return 'float'
    if isinstance(x, str):
        return 'str'
    if isinstance(x, bytes):
        if fam_type == 'f':
            return 'bytes-in' if len(x) == 2 else 'bytes-out'
        if fam_type == 's':
            return 'bytes-in' if len(x) == 6 else 'bytes-out'
        return 'bytes'
    if x is None:
        return 'none'
    if isinstance(x, tuple):
        return 'tuple'
    return type(x).__name__


def representable_key(fam, x):
    """True / False / None (= the property does not say) for typed key domains."""
    kt = fam[0]
    cat = category(kt, x)
    if kt in F.INT_RANGE:
        if cat in ('int-in',):
            return True
        if cat == 'bool':
            return None
        return False
    if kt == 'f':
        return cat == 'bytes-in'
    return None         # object keys: usability depends on comparisons


def representable_value(fam, x):
    vt = fam[1]
    cat = category(vt, x)
    if vt in F.INT_RANGE:
        if cat == 'int-in':
            return True
        if cat == 'bool':
            return None
        return False
    if vt == 's':
        return cat == 'bytes-in'
    if vt == 'F':
        if cat in ('float', 'int', 'bool', 'inf', 'nan', 'ninf'):
            return None     # judged by C13 (rounding / range)
        return False
    return True


def bounds(tier):
    return ('quick: cover families N=4 @2/2 for all four kinds with the full argument alphabet; '
            'other families N=3; deep growth + thinning lock-step @2/3, 3/2 and wide nodes @2/8, 8/2 for II OO fs; '
            'module-level functions (union ... multiunion, weighted forms) in lock-step over all subset pairs '
            'N=4 (cover) / N=3 x 6 x 6 operand forms; thorough: all families N=5 @2/2 and N=4 @3/2')


def required_guards(tier):
    return ['height>=3', 'weird_reads', 'weird_writes', 'weird_values', 'pickles_compared', 'failing_iterables',
            'union', 'weightedIntersection', 'multiunion']


def configs(tier):
    out = []
    deep = F.COVER if tier == 'quick' else F.FAMILIES
    for fam in F.FAMILIES:
        for kind in F.KINDS:
            tree = kind in F.TREE_KINDS
            if fam in deep:
                if tier == 'quick':
                    out.append((fam, kind, (2, 2) if tree else None, 5 if tree else 4, 'centred',
                                30 if tree else 3))
                    if fam[0] == 'O' and tree:
                        out.append((fam, kind, (2, 2), 3, 'none', 5))
                else:
                    out.append((fam, kind, (2, 2) if tree else None, 5, 'centred', 300 if tree else 5))
                    if tree:
                        out.append((fam, kind, (3, 2), 4, 'centred', 30))
                    if fam[0] == 'O' and tree:
                        out.append((fam, kind, (2, 2), 4, 'none', 30))
            else:
                out.append((fam, kind, (2, 2) if tree else None, 3, 'centred', 3))
    return out


def jobs(tier):
    js = [{'fn': 'job', 'weight': w, 'group': kind,
           'args': dict(fam=fam, kind=kind, sizes=sizes, n=n, variant=var)}
          for fam, kind, sizes, n, var, w in configs(tier)]
    deep = ('II', 'OO', 'fs') if tier == 'quick' else F.COVER
    for fam in deep:
        for kind in F.TREE_KINDS:
            if tier == 'quick':
                specs = [((2, 3), 11, 'asc'), ((3, 2), 11, 'asc'), ((2, 3), 10, 'desc'), ((3, 2), 10, 'mid')]
                # wide nodes: 9 children under one node / 8 keys in one leaf
                specs += [((2, 8), 10, 'asc' if kind == 'BTree' else 'desc'),
                          ((8, 2), 11, 'mid' if kind == 'BTree' else 'asc')]
            else:
                specs = [(sz, 12, o) for sz in ((2, 3), (3, 2), (2, 4), (3, 4)) for o in ('asc', 'desc', 'mid')]
                specs += [((4, 2), 14, 'asc'), ((4, 3), 14, 'asc')]
                specs += [((2, 8), 11, o) for o in ('asc', 'desc')] + [((8, 2), 12, o) for o in ('asc', 'mid')]
                specs += [((6, 6), 13, 'mid')]
            for sz, n, order in specs:
                js.append({'fn': 'deep_job', 'weight': 40, 'group': 'deep/' + kind,
                           'args': dict(fam=fam, kind=kind, sizes=sz, n=n, order=order)})
    # the module-level functions are public API too: lock-step over operand pairs
    for fam in F.FAMILIES:
        js.append({'fn': 'modfuncs_job', 'weight': 8, 'group': 'modfuncs',
                   'args': dict(fam=fam, n=4 if (tier != 'quick' or fam in F.COVER) else 3)})
    return js


def alphabet(ctx, keys, grid, vals):
    ops = list(S.full_alphabet(ctx, keys, grid, vals))
    k0 = keys[0]
    gap = [g for g in grid if g not in keys]
    knew = gap[1] if len(gap) > 1 else gap[0]
    v0 = vals[0]
    reads = []
    writes = []
    vwrites = []
    for w in WEIRD:
        if w in ((TAG, 'nan'), (TAG, 'index'), (TAG, 'floatable')) and ctx.fam[0] == 'O':
            # nan is not orderable: outside the object-key domain (as a VALUE it stays in);
            # the conversion-protocol objects are meant for the typed slots (as object keys
            # they are just default-comparison objects again)
            kreads, kwrites = [], []
        else:
            kreads, kwrites = reads, writes
        if ctx.is_map:
            kreads += [('get', w), ('get', w, 'D'), ('getitem', w), ('contains', w), ('has_key', w)]
            kwrites += [('setitem', w, v0), ('setdefault', w, v0), ('delitem', w), ('pop', w),
                       ('pop', w, 'D'), ('update', 'pairs', ((w, v0),)),
                       ('update', 'dict', ((w, v0),))]
            if ctx.kind == 'BTree':
                kwrites.append(('insert', w, v0))
            vwrites += [('setitem', k0, w), ('setitem', knew, w), ('setdefault', k0, w),
                        ('setdefault', knew, w), ('update', 'pairs', ((knew, w),))]
            if ctx.kind == 'BTree':
                vwrites.append(('insert', knew, w))
        else:
            kreads += [('contains', w), ('has_key', w)]
            kwrites += [('add', w), ('insert', w), ('remove', w), ('discard', w),
                       ('update', 'list', (w,)), ('ior', 'list', (w,)), ('isub', 'list', (w,)),
                       ('iand', 'list', (w,)), ('ixor', 'list', (w,))]
        kreads += [('minKey', w), ('maxKey', w), ('rkeys', w, None), ('rkeys', None, w)]
    for g in gap[:2]:
        reads += [('minKey', g), ('maxKey', g)]
    reads += [('minKey',), ('maxKey',)]
    # range searches with in-domain bounds: every universe key as exclusive / inclusive upper and
    # lower bound (the two implementations repair a missed bound by different means)
    for k in keys:
        reads += [('rkeysx', None, k, False, True), ('rkeysx', k, None, True, False),
                  ('rkeysx', None, k, False, False), ('maxKey', k), ('minKey', k)]
    reads += [('rkeysx', None, None, True, True), ('rkeysx', gap[0], gap[-1], True, True)]
    # arguments whose own iteration fails (IterFault after some items), or that cannot be iterated at
    # all: the caller must get that exception (class compared), and both implementations must have
    # applied the same part of the argument
    iters = []
    if ctx.is_map:
        pairs = tuple((k, vals[i % 2]) for i, k in enumerate((knew, k0)))
        iters += [('update', 'raising', pairs), ('update', 'raising', ()), ('update', 'noniter', ()),
                  ('update', 'genpairs', pairs)]
    else:
        two = (knew, k0)
        for name in ('update', 'ior', 'iand', 'isub', 'ixor'):
            iters += [(name, 'raising', two), (name, 'raising', ())]
        iters += [('update', 'noniter', ()), ('ior', 'noniter', ())]
    return ops, reads, writes, vwrites, iters


def key_arg(op):
    """The (weird) key argument of a read/write op."""
    name = op[0]
    if name == 'update':
        x = op[2][0]
        return x[0] if op[1] in ('pairs', 'dict') else x
    if name in ('ior', 'isub', 'iand', 'ixor'):
        return op[2][0]
    if name == 'rkeys':
        return op[1] if op[1] is not None else op[2]
    return op[1] if len(op) > 1 else None


def value_arg(op):
    return op[2][0][1] if op[0] == 'update' else op[2]


def norm(x):
    """nan -> token, so that structures holding nan compare equal to themselves."""
    if isinstance(x, float) and x != x:
        return 'NaN'
    if isinstance(x, tuple):
        return tuple(norm(i) for i in x)
    if isinstance(x, list):
        return [norm(i) for i in x]
    return x


def eq_contents(a, b):
    return a == b or norm(a) == norm(b)


def apply(ctx, t, op):
    mop = materialize(op)
    if mop[0] == 'rkeysx':
        # ('rkeysx', min, max, excludemin, excludemax) with in-domain bounds
        return O.outcome(lambda: list(t.keys(mop[1], mop[2], mop[3], mop[4])))
    if mop[0] == 'rkeys':
        kw = {}
        if mop[1] is not None:
            kw['min'] = mop[1]
        if mop[2] is not None:
            kw['max'] = mop[2]
        return O.outcome(lambda: list(t.keys(**kw)))
    return O.apply_sut(ctx, t, mop)


def same(op, a, b):
    if a[0] != b[0]:
        return False
    if a[0] == 'exc':
        return a[1] == b[1]
    if op[0] in ('update', 'clear', 'setitem', 'delitem', 'discard', 'remove'):
        return True
    x, y = a[1], b[1]
    if op[0] == 'has_key':
        return bool(x) == bool(y)
    if isinstance(x, (int, float)) and isinstance(y, (int, float)) and x != y:
        # float-valued families: setdefault() of the C implementation hands back the
        # caller's object, Python the converted one; equal after single-precision rounding
        try:
            import struct
            return struct.pack('f', x) == struct.pack('f', y)
        except Exception:       # noqa
            return False
    if x != x and y != y:       # nan
        return True
    try:
        return bool(x == y)
    except Exception:       # noqa
        return False


def job(fam, kind, sizes, n, variant):
    cc = O.Ctx(fam, kind, 'c')
    pc = O.Ctx(fam, kind, 'py')
    keys, grid = F.universe(fam, n, variant)
    vals = F.values(fam)
    if sizes:
        F.set_sizes(fam, *sizes)
    tree = cc.is_tree
    normal, reads, writes, vwrites, iters = alphabet(cc, keys, grid, vals)
    allops = ([(o, 'normal') for o in normal] + [(o, 'read') for o in reads] +
              [(o, 'write') for o in writes] + [(o, 'vwrite') for o in vwrites] +
              [(o, 'iter') for o in iters])
    guards = collections.Counter()
    outcomes = collections.Counter()
    violations = []
    known = []
    from .. import findings as FM
    base = dict(fam=fam, kind=kind, sizes=sizes, n=n, variant=variant)

    def report(hist, op, site, cls, detail, **kw):
        if len(violations) < 3000 or CAP > 3000:
            sig = dict(fam=fam, kind=kind, site=site, cls=cls, variant=variant,
                       ktype=fam[0] if fam[0] in 'Of' else 'int',
                       vtype=fam[1] if fam[1] in 'OFs' else 'int')
            sig.update(kw)
            v = dict(prop='C09', sig=sig,
                     case=dict(base, history=list(hist), op=op, klass=kw.get('klass', 'normal')),
                     detail=detail)
            if FM.match('C09', sig) is not None:
                if len(known) < 4000:
                    known.append(v)
                else:
                    guards['known_dropped'] += 1
            else:
                violations.append(v)

    def rebuild(hist):
        a, b = cc.new(), pc.new()
        for op in hist:
            apply(cc, a, op)
            apply(pc, b, op)
        return a, b

    a0, b0 = rebuild(())
    k0 = (C.dump(a0, tree), C.dump(b0, tree))
    seen = {k0}
    frontier = collections.deque([((), k0)])
    states = 1
    transitions = 0
    sample = None
    while frontier:
        if len(violations) >= CAP:
            break
        hist, key = frontier.popleft()
        a, b = rebuild(hist)
        if (C.dump(a, tree), C.dump(b, tree)) != key:
            raise RuntimeError('replay of %r did not reproduce its state' % (hist,))
        # per-state: pickles and shape statistics
        st = C.shape_stats(key[0]) if tree else None
        if st:
            if st['height'] >= 3:
                guards['height>=3'] += 1
        for proto in (2, 3):
            pa, pb = O.outcome(pickle.dumps, a, proto), O.outcome(pickle.dumps, b, proto)
            guards['pickles_compared'] += 1
            if pa != pb:
                report(hist, ('pickle', proto), 'pickle', 'bytes-differ', 'C %r\nPy %r' % (pa, pb))
        if sample is None and len(hist) >= 3:
            sample = dict(base, history=list(hist))
        before = O.outcome(O.contents, cc, a)
        for op, klass in allops:
            slot.set(('E2', fam, kind, sizes, hist, op))
            ra = apply(cc, a, op)
            rb = apply(pc, b, op)
            transitions += 1
            outcomes['%s/%s/%s' % (op[0], ra[0], ra[1] if ra[0] == 'exc' else '')] += 1
            w = op[1] if len(op) > 1 else None
            kt = fam[0]
            argcat = ''
            if klass in ('read', 'write'):
                arg = key_arg(op)
                argcat = category(kt, arg)
                guards['weird_reads' if klass == 'read' else 'weird_writes'] += 1
            elif klass == 'vwrite':
                arg = value_arg(op)
                argcat = category(fam[1], arg)
                guards['weird_values'] += 1
            elif klass == 'iter':
                argcat = op[1]
                guards['failing_iterables'] += 1
            if not same(op, ra, rb):
                report(hist, op, op[0], 'result', 'op %r: C %r, Py %r' % (op, ra, rb),
                       argcat=argcat, klass=klass, c_out=ra[1] if ra[0] == 'exc' else 'ok',
                       py_out=rb[1] if rb[0] == 'exc' else 'ok', empty=before == ('ok', []))
            try:
                da, db = norm(C.dump(a, tree)), norm(C.dump(b, tree))
            except Exception as e:      # noqa
                report(hist, op, op[0], 'dump-failed', repr(e), argcat=argcat, klass=klass)
                a, b = rebuild(hist)
                continue
            ca, cb = O.outcome(O.contents, cc, a), O.outcome(O.contents, pc, b)
            if not eq_contents(ca, cb):
                report(hist, op, op[0], 'contents', 'after %r: C %r, Py %r' % (op, ca, cb),
                       argcat=argcat, klass=klass)
            elif da != db:
                report(hist, op, op[0], 'shape', 'after %r: C %r, Py %r' % (op, da, db),
                       argcat=argcat, klass=klass)
            # absolute rule for typed domains
            if klass in ('read', 'write', 'vwrite'):
                rep = (representable_value(fam, arg) if klass == 'vwrite'
                       else representable_key(fam, arg))
                if (rep is False and op[0] == 'setdefault' and before[0] == 'ok'
                        and any(kv[0] == op[1] for kv in before[1])):
                    rep = None      # key present: setdefault writes nothing, no rule applies
                if rep is False:
                    for impl, r, cont in (('c', ra, ca), ('py', rb, cb)):
                        exp = expected_unusable(op, klass)
                        if exp is not None and not exp(r):
                            report(hist, op, op[0], 'unusable-' + klass,
                                   '%s: op %r with unrepresentable argument -> %r' % (impl, op, r),
                                   argcat=argcat, klass=klass, impl=impl,
                                   out=r[1] if r[0] == 'exc' else 'ok')
                        if klass != 'read' and not eq_contents(cont, before) and exp is not None:
                            report(hist, op, op[0], 'unusable-changed',
                                   '%s: op %r changed contents %r -> %r' % (impl, op, before, cont),
                                   argcat=argcat, klass=klass, impl=impl)
            nk = (da, db)
            if nk != key:
                # only the normal alphabet expands the frontier: successors created by
                # argument-alphabet ops (foreign but storable keys in object-keyed
                # families) are compared but not explored further
                if klass == 'normal' and da == db and eq_contents(ca, cb) and nk not in seen:
                    seen.add(nk)
                    states += 1
                    frontier.append((hist + (op,), nk))
                a, b = rebuild(hist)
    return dict(states=states, transitions=transitions, compared=transitions,
                evaluations=transitions, distinct=states, exhaustive=True,
                guards=dict(guards), outcomes=dict(outcomes), violations=violations + known,
                sample=sample)


def deep_job(fam, kind, sizes, n, order):
    """Lock-step over a GROWTH + THINNING space with (asymmetric) node sizes: n keys inserted in a
    scripted order - shape, contents and pickle of C and Python compared after every insert - then
    BFS over every subset of deletions (every order that changes the shape), compared after
    every transition.  Reaches non-root interior splits, which need >= 10 keys."""
    from ..report import Reporter
    cc = O.Ctx(fam, kind, 'c')
    pc = O.Ctx(fam, kind, 'py')
    F.set_sizes(fam, *sizes)
    keys, grid = F.universe(fam, n, 'centred')
    vals = F.values(fam)
    prefix = S.build_prefix(cc, keys, vals, order)
    dels = S.delete_alphabet(cc, keys)
    rep = Reporter('C09')
    guards = collections.Counter()
    base = dict(deep=True, fam=fam, kind=kind, sizes=sizes, n=n, order=order)
    compared = [0]

    def rebuild(hist):
        a, b = cc.new(), pc.new()
        for op in hist:
            O.fast_apply(cc, a, op)
            O.fast_apply(pc, b, op)
        return a, b

    def compare(hist, a, b):
        """-> canonical key of the C tree, or None after a reported difference"""
        compared[0] += 1
        sig = dict(fam=fam, kind=kind, site=hist[-1][0] if hist else 'new', klass='deep',
                   ktype=fam[0] if fam[0] in 'Of' else 'int', vtype=fam[1] if fam[1] in 'OFs' else 'int')
        case = dict(base, history=[list(o) for o in hist])
        try:
            ca, cb = C.dump(a, True), C.dump(b, True)
        except Exception as e:      # noqa
            rep.add(dict(sig, cls='dump-failed'), case, repr(e))
            return None
        if O.contents(cc, a) != O.contents(pc, b):
            rep.add(dict(sig, cls='contents'), case, 'C %r, Python %r' % (O.contents(cc, a), O.contents(pc, b)))
            return None
        if ca != cb:
            rep.add(dict(sig, cls='shape'), case, 'C %r\nPython %r' % (ca, cb))
            return None
        st = C.shape_stats(ca)
        if st['height'] >= 3:
            guards['height>=3'] += 1
        if st['height'] >= 4:
            guards['height>=4'] += 1
        pa, pb = O.outcome(pickle.dumps, a, 2), O.outcome(pickle.dumps, b, 2)
        guards['pickles_compared'] += 1
        if pa != pb:
            # reported, but the walk goes on: the shapes agree (for the fs family this is the
            # known memoisation difference F24 in every multi-bucket state)
            rep.add(dict(sig, cls='bytes-differ', site='pickle'), case, 'C %r\nPy %r' % (pa, pb))
        probs = C.walk(ca, cc.is_map, *sizes)
        if probs:
            rep.add(dict(sig, cls='walk'), case, '; '.join(probs[:3]))
            return None
        return ca

    # growth
    for i in range(len(prefix) + 1):
        a, b = rebuild(prefix[:i])
        k0 = compare(prefix[:i], a, b)
        guards['growth_steps'] += 1
        if k0 is None:
            break
    states = 1
    transitions = 0
    sample = dict(base, history=[list(o) for o in prefix[:4]] + ['...'])
    if k0 is not None:
        seen = {k0}
        frontier = collections.deque([prefix])
        while frontier and not rep.full:
            hist = frontier.popleft()
            for op in dels:
                slot.set(('E2deep', fam, kind, sizes, order, hist[len(prefix):], op))
                a, b = rebuild(hist + (op,))
                transitions += 1
                k = compare(hist + (op,), a, b)
                if k is not None and k not in seen:
                    seen.add(k)
                    states += 1
                    frontier.append(hist + (op,))
    return dict(states=states, transitions=transitions, compared=compared[0], evaluations=compared[0],
                distinct=states, exhaustive=not rep.full, guards=dict(guards), outcomes={},
                violations=rep.all(), sample=sample)


def expected_unusable(op, klass):
    """Predicate on the outcome for an op whose key/value argument is not representable."""
    name = op[0]
    if klass == 'read':
        if name in ('get',):
            d = op[2] if len(op) > 2 else None
            return lambda r: r == ('ok', d)
        if name == 'getitem':
            return lambda r: r == ('exc', 'KeyError')
        if name in ('contains', 'has_key'):
            return lambda r: r[0] == 'ok' and not r[1]
        return None         # range bounds / minKey: only C == Py is demanded
    if name in ('setitem', 'insert', 'setdefault', 'add', 'update', 'ior'):
        return lambda r: r == ('exc', 'TypeError')
    return None             # del / pop / remove / discard ...: only C == Py


MOD_FORMS = ['Set', 'TreeSet/thin', 'Bucket', 'BTree/thin', 'list', 'None']


def modfuncs_job(fam, n):
    """Lock-step over the module-level functions (union, intersection, difference, weightedUnion,
    weightedIntersection, multiunion): for every ordered pair of key subsets, every pair of operand forms
    and every weight pair of a small alphabet the C function (on C operands) and the Python function (on
    Python operands) must agree on outcome class, result kind, items and weight.  Cases whose exact result
    is not representable in the value type are skipped (C12 counts them; the property fixes no outcome)."""
    import itertools
    from ..report import Reporter
    from . import c12
    mod = F.module(fam)
    keys, grid = F.universe(fam, n, 'centred')
    F.set_sizes(fam, 2, 2)
    rep = Reporter('C09')
    guards = collections.Counter()
    evaluations = distinct = 0
    weighted = F.has_weighted(fam)
    if weighted:
        vals, ws, rng = c12.alphabets(fam)
        wpairs = [(), (ws[3],), (ws[1], ws[2]), (ws[2], ws[3]), (ws[3], ws[2])]
        if fam[1] == 'F':
            wpairs.append((0.5, -1.75))
    else:
        vals = list(F.values(fam))
    subsets = [tuple(k for k, c in zip(keys, combo) if c)
               for combo in itertools.product((False, True), repeat=len(keys))]
    base = dict(fam=fam, n=n, modfuncs=True)

    def make(impl, form, subset):
        if form == 'list':
            return list(reversed(subset))
        return c12.make(fam, impl, form, subset, keys, vals)

    def desc(r):
        if isinstance(r, tuple) and len(r) == 2 and not isinstance(r[0], tuple):
            return ('weighted', r[0], desc(r[1]))
        if r is None:
            return ('None',)
        tn = type(r).__name__
        tn = tn[:-2] if tn.endswith('Py') else tn
        if hasattr(r, 'items') and tn[len(fam):] in ('Bucket', 'BTree'):
            return (tn, list(r.items()))
        return (tn, list(r))

    def both(name, args_of):
        nonlocal evaluations
        out = []
        for impl, sfx in (('c', ''), ('py', 'Py')):
            fn = getattr(mod, name + sfx)
            try:
                out.append(('ok', desc(fn(*args_of(impl)))))
            except Exception as e:      # noqa
                out.append(('exc', type(e).__name__))
        evaluations += 2
        guards[name] += 1
        return out

    def in_range(d):
        # weighted results: skip when a value left the value type (C wraps / rounds, Python may not)
        if d[0] != 'ok' or d[1][0] != 'weighted':
            return True
        body = d[1][2]
        items = body[1] if len(body) > 1 else []
        vs = [x[1] for x in items if isinstance(x, tuple)] + [d[1][1]]
        if fam[1] == 'F':
            import struct
            return all(struct.unpack('f', struct.pack('f', v))[0] == v for v in vs if isinstance(v, float))
        return all(rng[0] <= v <= rng[1] for v in vs if isinstance(v, int))

    for A, B in itertools.product(subsets, repeat=2):
        if rep.full:
            break
        for fa in MOD_FORMS:
            for fb in MOD_FORMS:
                slot.set(('C09m', fam, A, B, fa, fb))
                if A and B:
                    distinct += 1
                case = dict(base, A=list(A), B=list(B), fa=fa, fb=fb)
                calls = []
                for name in ('union', 'intersection', 'difference'):
                    if name == 'difference' and fa == 'list':
                        continue
                    calls.append((name, (), lambda impl: (make(impl, fa, A), make(impl, fb, B))))
                if weighted and 'list' not in (fa, fb):
                    for name in ('weightedUnion', 'weightedIntersection'):
                        for wp in wpairs:
                            calls.append((name, wp, lambda impl, wp=wp: (make(impl, fa, A), make(impl, fb, B)) + wp))
                for name, wp, args_of in calls:
                    rc, rp = both(name, args_of)
                    if rc != rp:
                        if not in_range(rp) or not in_range(rc):
                            guards['skipped_unrepresentable'] += 1
                            continue
                        rep.add(dict(site=name, cls='modfunc', fa=fa.split('/')[0], fb=fb.split('/')[0],
                                     c_out=rc[0], py_out=rp[0], fam=fam, weights=len(wp)),
                                dict(case, fn=name, w=list(wp)),
                                '%s(%s %r, %s %r, *%r): C %r, Python %r' % (name, fa, A, fb, B, wp, rc, rp))
        if F.has_multiunion(fam) and len(A) + len(B) > 0:
            for forms in (('Set', 'TreeSet/thin'), ('list', 'Bucket'), ('int', 'BTree/thin')):
                def args_of(impl, forms=forms):
                    ops = []
                    for f, sub in zip(forms, (A, B)):
                        if f == 'int':
                            ops.extend(sub)
                        else:
                            ops.append(make(impl, f, sub))
                    return (ops,)
                rc, rp = both('multiunion', args_of)
                if rc != rp:
                    rep.add(dict(site='multiunion', cls='modfunc', fam=fam, c_out=rc[0], py_out=rp[0]),
                            dict(base, A=list(A), B=list(B), fn='multiunion', forms=list(forms)),
                            'multiunion(%r %r, %r %r): C %r, Python %r' % (forms[0], A, forms[1], B, rc, rp))
    return dict(states=0, transitions=evaluations // 2, compared=evaluations // 2, evaluations=evaluations,
                distinct=distinct, exhaustive=not rep.full, guards=dict(guards), outcomes={},
                violations=rep.all(), sample=dict(base, A=list(subsets[-1]), B=list(subsets[1]),
                                                  fa='Set', fb='BTree/thin', fn='union'))


def replay(case):
    if case.get('modfuncs'):
        r = modfuncs_job(case['fam'], case['n'])
        vs = [v for v in r['violations'] if all(v['case'].get(k) == case.get(k)
                                                for k in ('A', 'B', 'fa', 'fb', 'fn', 'w', 'forms'))]
        return dict(violations=vs)
    if case.get('deep'):
        r = deep_job(case['fam'], case['kind'], tuple(case['sizes']), case['n'], case['order'])
        vs = [v for v in r['violations'] if v['case'].get('history') == case.get('history')]
        return dict(violations=vs)
    return _replay(case)


def _replay(case):
    fam, kind = case['fam'], case['kind']
    cc = O.Ctx(fam, kind, 'c')
    pc = O.Ctx(fam, kind, 'py')
    if case.get('sizes'):
        F.set_sizes(fam, *case['sizes'])
    a, b = cc.new(), pc.new()
    for op in case['history']:
        op = S._tup(op)
        apply(cc, a, op)
        apply(pc, b, op)
    op = S._tup(case['op'])
    out = []
    tree = cc.is_tree
    if op[0] == 'pickle':
        pa, pb = O.outcome(pickle.dumps, a, op[1]), O.outcome(pickle.dumps, b, op[1])
        if pa != pb:
            out.append(dict(prop='C09', sig=dict(site='pickle', cls='bytes-differ'), case=case,
                            detail='C %r\nPy %r' % (pa, pb)))
        return dict(violations=out)
    before = O.outcome(O.contents, cc, a)
    ra, rb = apply(cc, a, op), apply(pc, b, op)
    if not same(op, ra, rb):
        out.append(dict(prop='C09', sig=dict(site=op[0], cls='result'), case=case,
                        detail='op %r: C %r, Py %r' % (op, ra, rb)))
    ca, cb = O.outcome(O.contents, cc, a), O.outcome(O.contents, pc, b)
    if not eq_contents(ca, cb):
        out.append(dict(prop='C09', sig=dict(site=op[0], cls='contents'), case=case,
                        detail='C %r, Py %r' % (ca, cb)))
    elif C.dump(a, tree) != C.dump(b, tree):
        out.append(dict(prop='C09', sig=dict(site=op[0], cls='shape'), case=case,
                        detail='C %r, Py %r' % (C.dump(a, tree), C.dump(b, tree))))
    klass = case.get('klass', 'normal')
    if klass in ('read', 'write', 'vwrite'):
        if klass == 'vwrite':
            rep = representable_value(fam, value_arg(op))
        else:
            rep = representable_key(fam, key_arg(op))
        exp = expected_unusable(op, klass)
        if (op[0] == 'setdefault' and before[0] == 'ok'
                and any(kv[0] == op[1] for kv in before[1])):
            rep = None
        if rep is False and exp is not None:
            for impl, r, cont in (('c', ra, ca), ('py', rb, cb)):
                if not exp(r):
                    out.append(dict(prop='C09', sig=dict(site=op[0], cls='unusable-' + klass, impl=impl),
                                    case=case, detail='%s: op %r with unrepresentable argument -> %r'
                                                      % (impl, op, r)))
                if klass != 'read' and not eq_contents(cont, before):
                    out.append(dict(prop='C09', sig=dict(site=op[0], cls='unusable-changed', impl=impl),
                                    case=case, detail='%s: op %r changed contents %r -> %r'
                                                      % (impl, op, before, cont)))
    return dict(violations=out)
