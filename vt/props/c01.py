"""C01 - containers behave as a sorted map / sorted set.

E1: BFS over all reachable states of the real container under the full mutating alphabet;
in every state every read probe for every key / gap of the universe.
"""
import itertools

from .. import fam as F
from .. import ops as O

LEVEL = 'model_checking'
RULE = ('states = distinct canonical structural dumps reachable from the empty container '
        'under the alphabet (BFS to fixed point); transitions = every alphabet op applied in '
        'every state on a fresh replayed object and compared with the reference model '
        '(result, exception class, full ordered contents); evaluations additionally count '
        'read probes (get/[]/in/has_key/len/bool/iteration for every key and gap of the '
        'universe in every state)')
TRUSTED = ['CPython 3.12', 'persistent 6.8', 'vt harness (explorer, reference models, canonical dump)']
ASSUMPTIONS = ['key universes of <= 13 keys per configuration; values from a 2-element alphabet',
               'node sizes from {2,3,4}, plus 2/8, 8/2, 6/6 for wide nodes; default node sizes are not explored exhaustively']


def bounds(tier):
    return ('quick: cover families %s deep (trees N<=6 @2/2, N=5 @2/3,3/2; leaves N=5; value '
            'space N=3 with 2 values), all 22 families shallow (N=4); plus thinning spaces '
            '(scripted build of 9 keys asc/desc/middle-out @2/2, then BFS over all deletions); '
            'wide nodes: thinning spaces @2/8 (10 keys), 8/2 (11), 6/6 (11) and BFS N=7 @2/8, N=9 @8/2 for '
            'OO LQ fs (C) / OO IF (Py), leaves of 9 keys for the cover families; '
            'thorough: all 22 deep, N=7, thinning N=11, wide nodes for all families'
            % ' '.join(F.COVER))


def required_guards(tier):
    return ['height>=3', 'single_child_interior']


def configs(tier):
    """(fam, kind, impl, sizes, n, variant, mode, weight)"""
    out = []
    deep = F.COVER if tier == 'quick' else F.FAMILIES
    for fam in F.FAMILIES:
        for impl in F.IMPLS:
            w = 10 if impl == 'py' else 1
            for kind in ('Bucket', 'Set'):
                for var in F.variants(fam) + (['unhash'] if fam[0] == 'O' else []):
                    out.append((fam, kind, impl, None, 5 if fam in deep else 4, var, 'shape', w))
                out.append((fam, kind, impl, None, 3, 'centred', 'value', w))
                if kind == 'Bucket':    # nearly equal values (vt.fam.values2)
                    out.append((fam, kind, impl, None, 3, 'centred', 'value2', w))
            for kind in F.TREE_KINDS:
                if fam in deep:
                    if tier == 'quick':
                        out.append((fam, kind, impl, (2, 2), 6 if impl == 'c' else 5,
                                    'centred', 'shape', 40 * w))
                        out.append((fam, kind, impl, (2, 2), 5, 'extreme', 'shape', 5 * w))
                        out.append((fam, kind, impl, (2, 3), 5, 'centred', 'shape', 3 * w))
                        out.append((fam, kind, impl, (3, 2), 5, 'centred', 'shape', 3 * w))
                        if fam[0] == 'O':
                            out.append((fam, kind, impl, (2, 2), 5, 'none', 'shape', 5 * w))
                            out.append((fam, kind, impl, (2, 2), 4, 'unhash', 'shape', 2 * w))
                    else:
                        out.append((fam, kind, impl, (2, 2), 7 if impl == 'c' else 6,
                                    'centred', 'shape', 400 * w))
                        out.append((fam, kind, impl, (2, 2), 6, 'extreme', 'shape', 40 * w))
                        for sz in ((2, 3), (3, 2), (3, 3), (2, 4), (4, 2), (4, 4), (3, 4), (4, 3)):
                            out.append((fam, kind, impl, sz, 6, 'centred', 'shape', 10 * w))
                        if fam[0] == 'O':
                            out.append((fam, kind, impl, (2, 2), 6, 'none', 'shape', 40 * w))
                            out.append((fam, kind, impl, (2, 2), 5, 'unhash', 'shape', 10 * w))
                else:
                    out.append((fam, kind, impl, (2, 2), 4, 'centred', 'shape', w))
                    out.append((fam, kind, impl, (2, 2), 4, 'extreme', 'shape', w))
                    if fam[0] == 'O':
                        out.append((fam, kind, impl, (2, 2), 3, 'unhash', 'shape', w))
                out.append((fam, kind, impl, (2, 2), 3, 'centred', 'value', w))
                if kind == 'BTree':
                    out.append((fam, kind, impl, (2, 2), 3, 'centred', 'value2', w))
    return out


# n is chosen so that two thirds of it is past the family's default leaf size (II 120, OO 30, fs 500, LQ 120)
BIG = {'quick': (('II', 200), ('OO', 100)),
       'thorough': (('II', 400), ('OO', 200), ('LQ', 200), ('fs', 800), ('IF', 200))}
THIN_N = {'quick': 9, 'thorough': 11}


def thin_configs(tier):
    out = []
    deep = F.COVER if tier == 'quick' else F.FAMILIES
    for fam in deep:
        for impl in F.IMPLS:
            for kind in F.TREE_KINDS:
                for order in ('asc', 'desc', 'mid'):
                    if tier == 'quick' and order == 'mid' and kind == 'TreeSet':
                        continue
                    out.append((fam, kind, impl, (2, 2), THIN_N[tier], 'centred', 'thin:' + order,
                                8 if impl == 'py' else 1))
    return out


def jobs(tier):
    js = []
    from .. import space as S
    wide = [(fam, kind, impl, sizes, n, var, 'thin:' + thin if thin else 'shape', w)
            for fam, kind, impl, sizes, n, var, thin, w in S.wide_configs(tier)]
    # wide leaves without a tree around them: 9 keys in one Bucket / Set
    for fam in (F.COVER if tier == 'quick' else F.FAMILIES):
        for impl in F.IMPLS:
            for kind in ('Bucket', 'Set'):
                wide.append((fam, kind, impl, None, 9, 'centred', 'shape', 2 if impl == 'c' else 6))
    # big states at the DEFAULT node sizes (sizes=None): depth-1 expansion, see vt.space.explorer(big=)
    for fam, n in BIG[tier]:
        for impl in F.IMPLS:
            for kind, order in (('BTree', 'asc'), ('TreeSet', 'desc'), ('BTree', 'mid')):
                wide.append((fam, kind, impl, None, n, 'centred', 'big:' + order, 6 if impl == 'c' else 30))
    for fam, kind, impl, sizes, n, var, mode, w in configs(tier) + thin_configs(tier) + wide:
        js.append({'fn': 'job', 'weight': w,
                   'group': '%s/%s' % (impl, 'tree' if kind in F.TREE_KINDS else 'leaf'),
                   'args': dict(fam=fam, kind=kind, impl=impl, sizes=sizes, n=n,
                                variant=var, mode=mode)})
    return js


# --------------------------------------------------------------------------
# worker side

def alphabet(ctx, keys, grid, vals, mode, n):
    ops = []
    gap = [g for g in grid if g not in keys]
    g0 = gap[:1]
    if ctx.is_map:
        vsets = [vals] if mode == 'value' else None
        for i, k in enumerate(keys):
            vs = vals if mode == 'value' else (vals[i % 2],)
            for v in vs:
                ops.append(('setitem', k, v))
                if ctx.kind == 'BTree':
                    ops.append(('insert', k, v))
                ops.append(('setdefault', k, v))
            ops.append(('delitem', k))
            ops.append(('pop', k))
            ops.append(('pop', k, 'D'))
        for g in g0:
            ops.append(('delitem', g))
            ops.append(('pop', g))
            ops.append(('pop', g, 'D'))
        ops.append(('popitem',))
        ops.append(('clear',))
        # refused single-key writes: TypeError, contents unchanged (also from the empty tree)
        ops.append(('badkey', 'setitem', vals[0]))
        ops.append(('badkey', 'update', vals[0]))
        if O.bad_value(ctx.fam) is not None:
            for k in (keys[0], keys[-1]) + tuple(g0):
                ops.append(('badvalue', 'setitem', k))
            ops.append(('badvalue', 'update', keys[len(keys) // 2]))
        pairs = [(k, vals[i % 2]) for i, k in enumerate(keys)]
        if mode == 'value':
            alt = [(k, vals[(i + 1) % 2]) for i, k in enumerate(keys)]
            for form in ('dict', 'pairs', 'same'):
                ops.append(('update', form, tuple(pairs)))
                ops.append(('update', form, tuple(alt)))
                ops.append(('update', form, tuple(alt[:1])))
        elif n <= 5:
            for r in range(0, n + 1):
                for sub in itertools.combinations(pairs, r):
                    for form in ('dict', 'pairs', 'same'):
                        ops.append(('update', form, tuple(sub)))
            ops.append(('update', 'pairs', tuple(reversed(pairs))))
            ops.append(('update', 'bucket' if ctx.kind == 'BTree' else 'btree', tuple(pairs)))
        else:
            ops.append(('update', 'dict', tuple(pairs)))
            ops.append(('update', 'pairs', tuple(reversed(pairs))))
            ops.append(('update', 'same', tuple(pairs[::2])))
            ops.append(('update', 'pairs', ()))
            for a, b in zip(pairs, pairs[1:]):
                ops.append(('update', 'pairs', (b, a)))
    else:
        for k in keys:
            ops.append(('add', k))
            ops.append(('insert', k))
            ops.append(('remove', k))
            ops.append(('discard', k))
        for g in g0:
            ops.append(('remove', g))
            ops.append(('discard', g))
        ops.append(('pop',))
        ops.append(('clear',))
        ops.append(('badkey', 'add'))
        ops.append(('badkey', 'update'))
        if n <= 5:
            subs = [tuple(s) for r in range(n + 1) for s in itertools.combinations(keys, r)]
            for sub in subs:
                for form in ('list', 'same'):
                    ops.append(('update', form, sub))
                    for ip in ('ior', 'iand', 'isub', 'ixor'):
                        ops.append((ip, form, sub))
                if sub:
                    # a plain iterable is neither sorted nor duplicate-free
                    dup = sub[::-1] + sub[:1]
                    ops.append(('update', 'list', dup))
                    for ip in ('ior', 'iand', 'isub', 'ixor'):
                        ops.append((ip, 'list', dup))
            full = tuple(reversed(keys))
            for form in ('tuple', 'gen', 'pyset', 'set' if ctx.kind == 'TreeSet' else 'treeset'):
                ops.append(('update', form, full))
                for ip in ('ior', 'iand', 'isub', 'ixor'):
                    ops.append((ip, form, full[::2]))
        else:
            full = tuple(keys)
            ops.append(('update', 'list', tuple(reversed(keys))))
            ops.append(('update', 'same', full[::2]))
            for ip in ('ior', 'iand', 'isub', 'ixor'):
                ops.append((ip, 'list', full[::2]))
                ops.append((ip, 'same', full[1::2]))
                ops.append((ip, 'list', ()))
                ops.append((ip, 'list', tuple(reversed(keys))))
                ops.append((ip, 'list', (keys[0], keys[0])))
                ops.append((ip, 'list', (keys[-1], keys[1], keys[-1])))
    return ops


def probes_monitor(grid):
    from .. import ops as O
    from .. import canon as C

    def mon(ex, hist, t, model, c):
        ctx = ex.ctx
        n = 0
        plist = []
        for p in grid:
            plist.append(('contains', p))
            plist.append(('has_key', p))
            if ctx.is_map:
                plist.append(('get', p))
                plist.append(('get', p, 'D'))
                plist.append(('getitem', p))
        plist.append(('len',))
        plist.append(('bool',))
        for op in plist:
            rs = O.apply_sut(ctx, t, op)
            rm = O.apply_model(model, op)
            n += 1
            if not O.same_outcome(op, rs, rm):
                ex.report(dict(prop='C01', sig=ex.sig(op[0], 'probe'), case=ex.case(hist, op),
                               detail='probe %r: result %r, model %r' % (op, rs, rm)))
        # iteration forms
        want_keys = model.keylist()
        forms = [('iter', lambda: list(iter(t))), ('keys', lambda: list(t.keys()))]
        if ctx.is_map:
            forms += [('items', lambda: list(t.items())), ('values', lambda: list(t.values())),
                      ('iterkeys', lambda: list(t.iterkeys())),
                      ('iteritems', lambda: list(t.iteritems())),
                      ('itervalues', lambda: list(t.itervalues()))]
        want = {'iter': want_keys, 'keys': want_keys, 'iterkeys': want_keys}
        if ctx.is_map:
            its = model.contents()
            want.update(items=its, iteritems=its, values=[v for k, v in its],
                        itervalues=[v for k, v in its])
        for name, f in forms:
            r = O.outcome(f)
            n += 1
            if r != ('ok', want[name]):
                ex.report(dict(prop='C01', sig=ex.sig(name, 'probe'), case=ex.case(hist, (name,)),
                               detail='%s(): %r, model %r' % (name, r, want[name])))
        # keys unique & strictly ascending (from the API's own answer)
        ks = [F.skey(k) for k in want_keys]
        if any(not a < b for a, b in zip(ks, ks[1:])):
            raise AssertionError('model keys not ascending')
        ex.guards['probes'] += n
        if C.dump(t, ctx.is_tree) != c:
            ex.report(dict(prop='C01', sig=ex.sig('probes', 'mutated'), case=ex.case(hist),
                           detail='read probes changed the structure'))
    return mon


def job(fam, kind, impl, sizes, n, variant, mode):
    from .. import ops as O
    from ..explore import Explorer
    if mode.startswith('thin:') or mode.startswith('big:'):
        from .. import space as S
        ex = S.explorer(fam, kind, impl, sizes, n, variant, 'C01', check_ops=True,
                        thin=mode[5:] if mode[0] == 't' else None,
                        big=mode[4:] if mode[0] == 'b' else None)
        ex.base_case['mode'] = mode
        grid = ex.grid
    else:
        ctx = O.Ctx(fam, kind, impl)
        keys, grid = F.universe(fam, n, variant)
        vals = F.values2(fam) if mode == 'value2' else F.values(fam)
        alpha = alphabet(ctx, keys, grid, vals, 'value' if mode == 'value2' else mode, n)
        if sizes:
            F.set_sizes(fam, *sizes)
        ex = Explorer(ctx, alpha, sizes=sizes, prop='C01',
                      base_case=dict(n=n, variant=variant, mode=mode))
    ex.state_monitors.append(probes_monitor(grid))
    ex.run()
    g = dict(ex.guards)
    probes = g.pop('probes', 0)
    return dict(states=ex.states, transitions=ex.transitions, compared=ex.compared + probes,
                evaluations=ex.transitions + probes, distinct=ex.states,
                exhaustive=ex.exhaustive, guards=g,
                outcomes={'%s/%s/%s' % k: v for k, v in ex.outcomes.items()},
                violations=ex.violations + ex.known, sample=ex.sample, n_max_depth=0)


def replay(case):
    """Re-execute one recorded case without the explorer."""
    from .. import ops as O
    from .. import canon as C
    from ..models import model_for
    ctx = O.Ctx(case['fam'], case['kind'], case['impl'])
    if case.get('sizes'):
        F.set_sizes(case['fam'], *case['sizes'])
    t = ctx.new()
    m = model_for(ctx.kind)
    out = []
    hist = list(case['history'])
    if case.get('op') is not None:
        hist.append(case['op'])
    for op in hist:
        op = tuple(op)
        if op[0] in ('iter', 'keys', 'items', 'values', 'iterkeys', 'iteritems', 'itervalues'):
            r = O.outcome(lambda: list(getattr(t, {'iter': '__iter__'}.get(op[0], op[0]))()))
            want = m.keylist() if op[0] in ('iter', 'keys', 'iterkeys') else (
                m.contents() if op[0] in ('items', 'iteritems') else [v for k, v in m.contents()])
            if r != ('ok', want):
                out.append(dict(prop='C01', sig=dict(site=op[0], cls='probe'), case=case,
                                detail='%r vs model %r' % (r, want)))
            continue
        rs = O.apply_sut(ctx, t, op)
        rm = O.apply_model(m, op)
        if not O.same_outcome(op, rs, rm):
            out.append(dict(prop='C01', sig=dict(site=op[0], cls='result'), case=case,
                            detail='op %r: result %r, model %r' % (op, rs, rm)))
        got = O.outcome(O.contents, ctx, t)
        if got != ('ok', m.contents()):
            out.append(dict(prop='C01', sig=dict(site=op[0], cls='contents'), case=case,
                            detail='after %r: contents %r, model %r' % (op, got, m.contents())))
            break
    return dict(violations=out)
