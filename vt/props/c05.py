"""C05 - evicting nodes from the object cache never changes behaviour.

E3 over E4.  Every container lives in a MiniDB connection with a real persistent.PickleCache.
The oracle is an *uncached twin*: the same history applied to a container of the same class
that never saw a data manager.

  part A (between operations; all families; both implementations)
      base = every reachable shape, stored with one commit per history step;
      schedule = which nodes are ghosts when the operation starts: none / all / exactly node i;
      every operation of a catalogue of ~150 entry points (lookups, range searches, iteration and
      lazy sequences with a sweep between any two steps, every mutator, set algebra with a second
      stored container, failing calls: unconvertible key / value, missing key, unusable bound,
      wrong-typed update item, bad operand, bad node-size attribute).
  part B (inside operations; object-keyed families, instrumented keys)
      for every operation and every index n < number of key comparisons it performs: a full cache
      sweep runs inside comparison n (all pairs n1 < n2 in the deeper tier), starting from an
      all-loaded and from an all-ghost cache; and: comparison n raises.
Checked after every execution: result == twin's; no node of either container is left STICKY
(_p_state == 2); contents and canonical shape == twin's; a final sweep turns every unchanged node
into a ghost; after commit a fresh connection reads the twin's contents.
"""
import collections

from .. import fam as F
from .. import ops as O
from .. import space as S
from .. import canon as C
from .. import minidb as M
from .. import kkey
from .. import slot
from ..kkey import K
from ..report import Reporter
from .c04 import lone_inline

LEVEL = 'exploration'
RULE = ('schedules of cache evictions enumerated exhaustively within the bounds: for every reachable '
        'shape (BFS fixed point, stored in a MiniDB with one commit per step) x every operation of the '
        'catalogue x every eviction placement - part A: ghost set at operation start in {none, all, '
        'each single node} and a sweep between any two steps of an iteration / lazy sequence; part B: a '
        'full sweep inside key comparison n for EVERY n below the number of comparisons the operation '
        'performs (and every pair n1<n2 up to the stated bound), from an all-loaded and an all-ghost '
        'cache, plus comparison n raising; oracle = uncached twin (result, exception class, contents, '
        'canonical shape), no node left sticky, final sweep ghostifies every unchanged node, commit + '
        'fresh reader; evaluations = executions under a non-trivial schedule; distinct_nontrivial = '
        'distinct (state, operation, schedule) triples with at least one node evicted')
TRUSTED = ['CPython 3.12', 'persistent 6.8 (C Persistent, PickleCache)', 'vt.minidb', 'gcc libasan '
           '(part B of the C implementation runs under AddressSanitizer)', 'vt harness']
ASSUMPTIONS = ['foreign code can run inside a C operation only at key comparisons (GIL build), so in-'
               'operation sweeps are placed there; integer-keyed families get part A only',
               'states whose history contains a commit hitting finding F12b (non-root single-leaf node '
               'serialised inline) are skipped and counted',
               'key universes of <= 6 keys, node sizes 2/2, 3/2, 2/3']


def bounds(tier):
    return ('quick: part A: cover families x 4 kinds x 2 impls: trees N=4 @2/2 with every single-node '
            'eviction, N=5 @2/2 and N=4 @3/2 all/none, thinning spaces of 8 keys, other families N=3; '
            'part B: OO, OI x 4 kinds, C (ASan): N=4 @2/2 + 3/2 every comparison index x {loaded, ghost} '
            'start, pairs of sweeps on N=3; pure Python N=3; thorough: N=5/6, pairs everywhere, all five '
            'object-keyed families')


def required_guards(tier):
    return ['A:executions', 'B:executions', 'evict:all', 'evict:node', 'inop_sweep_fired',
            'inop_fault_fired', 'reloaded_inside_op', 'height>=3', 'tag:lookup', 'tag:range', 'tag:iter',
            'tag:seq', 'tag:insert', 'tag:delete', 'tag:setop', 'tag:update', 'tag:fail',
            'fail_ops_raising', 'final_sweep_all_ghost', 'reader_checks']


# --------------------------------------------------------------------------
# worlds

class World:
    """t = the container under test, b = a second stored container (operand); jar or no jar."""

    def __init__(self, ctx, hist, bkeys, vals, jar=True):
        self.ctx = ctx
        self.jar = jar
        self.t = ctx.new()
        self.b = ctx.new()
        self.lone = False
        for i, k in enumerate(bkeys):
            O.fast_apply(ctx, self.b, ('setitem', k, vals[i % 2]) if ctx.is_map else ('add', k))
        if jar:
            self.storage = M.Storage()
            self.conn = M.Connection(self.storage)
            self.conn.add(self.t)
            self.conn.add(self.b)
            self.lone = lone_inline(self.b, ctx.is_tree)
            self.conn.commit()
        for op in hist:
            O.fast_apply(ctx, self.t, op)
            if jar:
                self.lone = self.lone or lone_inline(self.t, ctx.is_tree)
                self.conn.commit()
        self.nodes = self.objects() if jar else []

    def clone(self):
        """A fresh connection over a copy of the storage: same stored trees, nothing shared
        with this world (much cheaper than replaying the history with its commits)."""
        w = World.__new__(World)
        w.ctx, w.jar, w.lone = self.ctx, True, self.lone
        st = M.Storage()
        st.data = {oid: list(revs) for oid, revs in self.storage.data.items()}
        st.tid, st._oid = self.storage.tid, self.storage._oid
        st.commits = list(self.storage.commits)
        w.storage = st
        w.conn = M.Connection(st)
        w.t = w.conn.get(self.t._p_oid)
        w.b = w.conn.get(self.b._p_oid)
        # load everything once so that every node is in the cache and known to the harness
        O.contents(w.ctx, w.t)
        O.contents(w.ctx, w.b)
        if w.ctx.is_tree:
            C.dump(w.t, True)
            C.dump(w.b, True)
        w.nodes = w.objects()
        w.conn.log = []
        return w

    def objects(self):
        return sorted(self.conn.objects(), key=lambda o: o._p_oid)

    def sweep(self):
        if self.jar:
            return self.conn.sweep()
        return 0

    def evict(self, choice):
        """Returns the number of nodes turned into ghosts."""
        if not self.jar or choice == 'none':
            return 0
        if choice == 'all':
            n = 0
            for o in self.nodes:
                if o._p_state == 0:
                    o._p_deactivate()
                    n += o._p_state == -1
            return n
        o = self.nodes[choice[1]]
        if o._p_state == 0:
            o._p_deactivate()
            return int(o._p_state == -1)
        return 0

    def sticky(self):
        if not self.jar:
            return []
        seen = {}
        for o in list(self.nodes) + list(self.conn.objects()):
            seen[id(o)] = o
        return [(type(o).__name__, M.u64(o._p_oid) if o._p_oid else None)
                for o in seen.values() if o._p_state == 2]


def norm(x):
    """Results in a comparable, printable form."""
    if isinstance(x, K):
        return ('K', x.v)
    if isinstance(x, (list, tuple)):
        return type(x)(norm(i) for i in x)
    if isinstance(x, float) and x != x:
        return 'nan'
    return x


def shape_norm(c):
    """A root with one leaf is dumped as ('I', flat) while the leaf has no oid and as a one-child
    tree once the leaf is a stored record; that difference is the data manager's, not the tree's."""
    if c and c[0] == 'I' and len(c) == 2:
        c = (('T', (('L', 0),), 0), ((c[1], None),))
    return norm(c)


def outcome(fn):
    try:
        return ('ok', norm(fn()))
    except kkey.CmpFault:
        return ('exc', 'CmpFault')
    except Exception as e:      # noqa
        return ('exc', type(e).__name__)


def seqlist(x):
    return list(x)


def coll(r):
    """A container result of set algebra -> (type name, contents)."""
    if r is None:
        return None
    if isinstance(r, tuple):        # weighted*: (weight, container)
        return (r[0], coll(r[1]))
    name = type(r).__name__
    if hasattr(r, 'items'):
        return (name, list(r.items()))
    return (name, list(r.keys()) if hasattr(r, 'keys') else list(r))


def bad_keys(fam):
    kt = fam[0]
    if kt == 'O':
        return [object()]
    if kt == 'f':
        return [b'abc', 5]
    return ['x', 2 ** 70, None] if kt in 'IL' else ['x', -1, None]


def bad_values(fam):
    vt = fam[1]
    if vt == 'O':
        return []
    if vt == 's':
        return [b'abc', 5]
    if vt == 'F':
        return ['x']
    return ['x', 2 ** 70] if vt in 'IL' else ['x', -1]


def catalogue(ctx, keys, grid, vals, present, tier_small=False):
    """-> list of (name, tag, mutating, fn(w) -> value).  `present` = keys stored in w.t."""
    fam, kind, impl = ctx.fam, ctx.kind, ctx.impl
    ismap, tree = ctx.is_map, ctx.is_tree
    absent = [g for g in grid if g not in present]
    ops = []
    v0, v1 = vals
    mod = F.module(fam)
    sfx = 'Py' if impl == 'py' else ''

    def add(name, tag, mutating, fn):
        ops.append((name, tag, mutating, fn))

    probes = present[:1] + present[-1:] + absent[:1] + absent[len(absent) // 2:len(absent) // 2 + 1] \
        + absent[-1:]
    seenp = []
    for k in probes:
        if k not in seenp:
            seenp.append(k)
    probes = seenp
    # ---- lookups
    for k in probes:
        add('contains(%r)' % (k,), 'lookup', False, lambda w, k=k: k in w.t)
        add('has_key(%r)' % (k,), 'lookup', False, lambda w, k=k: bool(w.t.has_key(k)))
        if ismap:
            add('get(%r)' % (k,), 'lookup', False, lambda w, k=k: w.t.get(k, 'D'))
            add('getitem(%r)' % (k,), 'lookup', False, lambda w, k=k: w.t[k])
    add('len', 'lookup', False, lambda w: len(w.t))
    add('bool', 'lookup', False, lambda w: bool(w.t))
    # ---- range searches
    add('minKey()', 'range', False, lambda w: w.t.minKey())
    add('maxKey()', 'range', False, lambda w: w.t.maxKey())
    for k in probes:
        add('minKey(%r)' % (k,), 'range', False, lambda w, k=k: w.t.minKey(k))
        add('maxKey(%r)' % (k,), 'range', False, lambda w, k=k: w.t.maxKey(k))
    bounds_ = probes[:4] + [None]
    for lo in bounds_:
        for hi in bounds_:
            if lo is None and hi is None:
                continue
            add('keys(%r,%r)' % (lo, hi), 'range', False,
                lambda w, lo=lo, hi=hi: seqlist(w.t.keys(lo, hi)))
    lo, hi = probes[0], probes[-1]
    for exlo, exhi in ((True, False), (False, True), (True, True)):
        add('keys(min,max,%s,%s)' % (exlo, exhi), 'range', False,
            lambda w, a=exlo, b=exhi: seqlist(w.t.keys(lo, hi, a, b)))
        add('keys(excl %s,%s)' % (exlo, exhi), 'range', False,
            lambda w, a=exlo, b=exhi: seqlist(w.t.keys(None, None, a, b)))
    # every stored key as exclusive upper / lower bound and as maxKey / minKey argument: an exclusive bound
    # equal to the first key of a bucket (of a subtree) sends the search into the LEFT neighbour, which
    # may be a ghost (wave 6, seed C05K)
    for k in present:
        if k not in probes:
            add('minKey(%r)' % (k,), 'range', False, lambda w, k=k: w.t.minKey(k))
            add('maxKey(%r)' % (k,), 'range', False, lambda w, k=k: w.t.maxKey(k))
        add('keys(max=%r,excludemax)' % (k,), 'range', False,
            lambda w, k=k: seqlist(w.t.keys(None, k, False, True)))
        add('keys(min=%r,excludemin)' % (k,), 'range', False,
            lambda w, k=k: seqlist(w.t.keys(k, None, True, False)))
    if ismap:
        add('items(min)', 'range', False, lambda w: seqlist(w.t.items(probes[0])))
        add('values(max)', 'range', False, lambda w: seqlist(w.t.values(None, probes[-1])))
        add('items()', 'range', False, lambda w: seqlist(w.t.items()))
        add('values()', 'range', False, lambda w: seqlist(w.t.values()))
        if fam[1] != 'O' or True:
            add('byValue', 'range', False, lambda w: seqlist(w.t.byValue(min(v0, v1))))
    add('keys()', 'range', False, lambda w: seqlist(w.t.keys()))
    # ---- iteration, a sweep between two steps at position p
    npos = len(present) + 1

    def it_sweep(opener, p):
        def fn(w):
            it = opener(w.t)
            out = []
            i = 0
            while True:
                if i == p:
                    w.sweep()
                try:
                    out.append(next(it))
                except StopIteration:
                    break
                i += 1
            return out
        return fn
    openers = [('iter', lambda t: iter(t))]
    if ismap:
        openers.append(('iteritems', lambda t: t.iteritems()))
        openers.append(('itervalues(min)', lambda t: t.itervalues(probes[0])))
    elif hasattr(ctx.cls, 'iterkeys'):
        openers.append(('iterkeys', lambda t: t.iterkeys()))
    for oname, opener in openers:
        add(oname, 'iter', False, lambda w, o=opener: list(o(w.t)))
        for p in range(npos):
            add('%s sweep@%d' % (oname, p), 'iter', False, it_sweep(opener, p))

    def seq_sweep(mk, order, p):
        def fn(w):
            s = mk(w.t)
            n = len(s)
            out = [n]
            idx = list(range(n)) if order == 'asc' else list(range(n - 1, -1, -1))
            for j, i in enumerate(idx):
                if j == p:
                    w.sweep()
                out.append(s[i])
            if p == len(idx):
                w.sweep()
            out.append(len(s))
            out.append(list(s))
            return out
        return fn
    mks = [('keys', lambda t: t.keys())]
    if ismap:
        mks.append(('items', lambda t: t.items()))
        mks.append(('values(min)', lambda t: t.values(probes[0])))
    if tree:
        for mname, mk in mks:
            for order in ('asc', 'desc'):
                for p in range(npos):
                    add('%s-seq %s sweep@%d' % (mname, order, p), 'seq', False, seq_sweep(mk, order, p))
    # ---- mutators
    for k in absent:
        if ismap:
            add('setitem-new(%r)' % (k,), 'insert', True, lambda w, k=k: w.t.__setitem__(k, v0))
        else:
            add('add-new(%r)' % (k,), 'insert', True, lambda w, k=k: w.t.add(k))
    for k in absent[:2]:
        if ismap:
            add('setdefault-new(%r)' % (k,), 'insert', True, lambda w, k=k: w.t.setdefault(k, v1))
            if kind == 'BTree':
                add('insert-new(%r)' % (k,), 'insert', True, lambda w, k=k: w.t.insert(k, v1))
        else:
            add('insert-new(%r)' % (k,), 'insert', True, lambda w, k=k: w.t.insert(k))
    for k in present:
        if ismap:
            add('delitem(%r)' % (k,), 'delete', True, lambda w, k=k: w.t.__delitem__(k))
            add('replace(%r)' % (k,), 'replace', True, lambda w, k=k: w.t.__setitem__(k, v1))
        else:
            add('remove(%r)' % (k,), 'delete', True, lambda w, k=k: w.t.remove(k))
    for k in present[:2]:
        if ismap:
            add('pop(%r)' % (k,), 'delete', True, lambda w, k=k: w.t.pop(k))
            add('setdefault-old(%r)' % (k,), 'lookup', False, lambda w, k=k: w.t.setdefault(k, v1))
            if kind == 'BTree':
                add('insert-old(%r)' % (k,), 'lookup', False, lambda w, k=k: w.t.insert(k, v1))
        else:
            add('discard(%r)' % (k,), 'delete', True, lambda w, k=k: w.t.discard(k))
            add('add-old(%r)' % (k,), 'lookup', False, lambda w, k=k: w.t.add(k))
    if ismap:
        add('pop-absent-default', 'lookup', False, lambda w: w.t.pop(absent[0], 'D'))
        add('popitem', 'delete', True, lambda w: w.t.popitem())
    else:
        add('pop', 'delete', True, lambda w: w.t.pop())
        add('discard-absent', 'lookup', False, lambda w: w.t.discard(absent[0]))
    add('clear', 'delete', True, lambda w: w.t.clear())
    # ---- update / in-place operators; operand = plain data or the second stored container
    if ismap:
        pairs = [(k, vals[(i + 1) % 2]) for i, k in enumerate(keys)]
        add('update(pairs)', 'update', True, lambda w: w.t.update(list(reversed(pairs))) and None)
        add('update(b)', 'update', True, lambda w: w.t.update(w.b) and None)
    else:
        add('update(list)', 'update', True, lambda w: w.t.update(list(reversed(keys))) and None)
        add('update(b)', 'update', True, lambda w: w.t.update(w.b) and None)
        import operator
        for iname, iop in (('ior', operator.ior), ('iand', operator.iand), ('isub', operator.isub),
                           ('ixor', operator.ixor)):
            add('%s(list)' % iname, 'update', True,
                lambda w, iop=iop: iop(w.t, list(keys[1::2])) is w.t)
            add('%s(b)' % iname, 'update', True, lambda w, iop=iop: iop(w.t, w.b) is w.t)
    # ---- set algebra (module functions and operators), both operand orders
    for fname in ('union', 'intersection', 'difference'):
        fn = getattr(mod, fname + sfx)
        add(fname + '(t,b)', 'setop', False, lambda w, fn=fn: coll(fn(w.t, w.b)))
        add(fname + '(b,t)', 'setop', False, lambda w, fn=fn: coll(fn(w.b, w.t)))
        add(fname + '(t,t)', 'setop', False, lambda w, fn=fn: coll(fn(w.t, w.t)))
    add('t|b', 'setop', False, lambda w: coll(w.t | w.b))
    add('t&b', 'setop', False, lambda w: coll(w.t & w.b))
    add('b-t', 'setop', False, lambda w: coll(w.b - w.t))
    if F.has_weighted(fam):
        wu = getattr(mod, 'weightedUnion' + sfx)
        wi = getattr(mod, 'weightedIntersection' + sfx)
        add('weightedUnion(t,b)', 'setop', False, lambda w: coll(wu(w.t, w.b)))
        add('weightedIntersection(b,t)', 'setop', False, lambda w: coll(wi(w.b, w.t, 1, 1)))
    if F.has_multiunion(fam):
        mu = getattr(mod, 'multiunion' + sfx)
        add('multiunion([t,b])', 'setop', False, lambda w: coll(mu([w.t, w.b])))
        add('multiunion([b,t,int])', 'setop', False, lambda w: coll(mu([w.b, w.t, grid[0]])))
    if not ismap:
        add('isdisjoint(b)', 'setop', False, lambda w: w.t.isdisjoint(w.b))
        add('isdisjoint(t)', 'setop', False, lambda w: w.t.isdisjoint(w.t))
        add('b.isdisjoint(t)', 'setop', False, lambda w: w.b.isdisjoint(w.t))
        add('isdisjoint(list)', 'setop', False, lambda w: w.t.isdisjoint(list(absent[:2])))
    # ---- structure checkers and state
    if tree:
        add('_check', 'lookup', False, lambda w: w.t._check())
        add('__getstate__-len', 'lookup', False,
            lambda w: (lambda s: None if s is None else len(s))(w.t.__getstate__()))
    # ---- failing calls
    bk = bad_keys(fam)
    bv = bad_values(fam)
    a0 = absent[0]
    p0 = present[0] if present else absent[1]
    for i, k in enumerate(bk):
        t = 'bk%d' % i
        add('contains(%s)' % t, 'fail', False, lambda w, k=k: k in w.t)
        add('has_key(%s)' % t, 'fail', False, lambda w, k=k: bool(w.t.has_key(k)))
        add('minKey(%s)' % t, 'fail', False, lambda w, k=k: w.t.minKey(k))
        add('maxKey(%s)' % t, 'fail', False, lambda w, k=k: w.t.maxKey(k))
        add('keys(min=%s)' % t, 'fail', False, lambda w, k=k: seqlist(w.t.keys(k)))
        add('keys(max=%s)' % t, 'fail', False, lambda w, k=k: seqlist(w.t.keys(None, k)))
        add('keys(ok,max=%s)' % t, 'fail', False, lambda w, k=k: seqlist(w.t.keys(p0, k)))
        if ismap:
            add('get(%s)' % t, 'fail', False, lambda w, k=k: w.t.get(k, 'D'))
            add('getitem(%s)' % t, 'fail', False, lambda w, k=k: w.t[k])
            add('setitem(%s)' % t, 'fail', False, lambda w, k=k: w.t.__setitem__(k, v0))
            add('setdefault(%s)' % t, 'fail', False, lambda w, k=k: w.t.setdefault(k, v0))
            add('delitem(%s)' % t, 'fail', False, lambda w, k=k: w.t.__delitem__(k))
            add('pop(%s)' % t, 'fail', False, lambda w, k=k: w.t.pop(k))
            add('items(min=%s)' % t, 'fail', False, lambda w, k=k: seqlist(w.t.items(k)))
            add('values(max=%s)' % t, 'fail', False, lambda w, k=k: seqlist(w.t.values(None, k)))
            add('iteritems(min=%s)' % t, 'fail', False, lambda w, k=k: list(w.t.iteritems(k)))
            add('update([(%s,v)])' % t, 'fail', True, lambda w, k=k: w.t.update([(a0, v0), (k, v0)]) and None)
            if kind == 'BTree':
                add('insert(%s)' % t, 'fail', False, lambda w, k=k: w.t.insert(k, v0))
        else:
            add('add(%s)' % t, 'fail', False, lambda w, k=k: w.t.add(k))
            add('remove(%s)' % t, 'fail', False, lambda w, k=k: w.t.remove(k))
            add('discard(%s)' % t, 'fail', False, lambda w, k=k: w.t.discard(k))
            add('update([%s])' % t, 'fail', True, lambda w, k=k: w.t.update([a0, k]) and None)
            add('ior([%s])' % t, 'fail', True, lambda w, k=k: w.t.__ior__([a0, k]) is w.t)
            add('isub([%s])' % t, 'fail', True, lambda w, k=k: w.t.__isub__([p0, k]) is w.t)
            add('isdisjoint([%s])' % t, 'fail', False, lambda w, k=k: w.t.isdisjoint([k]))
    if ismap:
        for i, v in enumerate(bv):
            t = 'bv%d' % i
            add('setitem(new,%s)' % t, 'fail', False, lambda w, v=v: w.t.__setitem__(a0, v))
            add('setitem(old,%s)' % t, 'fail', False, lambda w, v=v: w.t.__setitem__(p0, v))
            add('setdefault(new,%s)' % t, 'fail', False, lambda w, v=v: w.t.setdefault(a0, v))
            add('update([(k,%s)])' % t, 'fail', True,
                lambda w, v=v: w.t.update([(a0, v0), (absent[-1], v)]) and None)
            add('byValue(%s)' % t, 'fail', False, lambda w, v=v: seqlist(w.t.byValue(v)))
            if kind == 'BTree':
                add('insert(new,%s)' % t, 'fail', False, lambda w, v=v: w.t.insert(a0, v))
        add('getitem(absent)', 'fail', False, lambda w: w.t[a0])
        add('delitem(absent)', 'fail', False, lambda w: w.t.__delitem__(a0))
        add('pop(absent)', 'fail', False, lambda w: w.t.pop(a0))
        add('update([1])', 'fail', False, lambda w: w.t.update([1]) and None)
        add('update(5)', 'fail', False, lambda w: w.t.update(5) and None)
    else:
        add('remove(absent)', 'fail', False, lambda w: w.t.remove(a0))
        add('update(5)', 'fail', False, lambda w: w.t.update(5) and None)
        add('ior(5)', 'fail', False, lambda w: w.t.__ior__(5) is w.t)
        add('isdisjoint(5)', 'fail', False, lambda w: w.t.isdisjoint(5))
    add('minKey(above)', 'fail', False, lambda w: w.t.minKey(grid[-1]) if grid[-1] not in present
        else w.t.minKey(grid[-1]))
    add('maxKey(below)', 'fail', False, lambda w: w.t.maxKey(grid[0]))
    un = getattr(mod, 'union' + sfx)
    add('union(t,5)', 'fail', False, lambda w: coll(un(w.t, 5)))
    add('t|5', 'fail', False, lambda w: coll(w.t | 5))
    if F.has_weighted(fam):
        add('weightedUnion(t,5)', 'fail', False,
            lambda w: coll(getattr(mod, 'weightedUnion' + sfx)(w.t, 5)))
    if tree and impl == 'c':
        # a node-size attribute that cannot be used: the insert fails after the leaf was changed
        def bad_size(w, attr):
            cls = type(w.t)
            saved = getattr(cls, attr)
            try:
                setattr(cls, attr, -3)
                w.t._p_jar is None or w.t._p_deactivate()      # forget the cached sizes
                if ismap:
                    w.t[a0] = v0
                else:
                    w.t.add(a0)
            finally:
                setattr(cls, attr, saved)
        # (the twin keeps its cached sizes, so only the pins are judged: tag 'pinonly')
        add('insert-with-bad-leaf-size', 'pinonly', True, lambda w: bad_size(w, 'max_leaf_size'))
        add('insert-with-bad-internal-size', 'pinonly', True, lambda w: bad_size(w, 'max_internal_size'))
    return ops


# --------------------------------------------------------------------------

def enumerate_states(fam, kind, impl, sizes, n, variant, thin):
    ex = S.explorer(fam, kind, impl, sizes, n, variant, 'C05', thin=thin)
    states = []
    ex.state_monitors.append(lambda e, hist, t, model, c: states.append((hist, model.copy(), c)))
    ex.run()
    return ex, states


def plain_hist(hist):
    return [list(('K', x.v) if isinstance(x, K) else x for x in op) for op in hist]


class Checker:
    def __init__(self, ctx, sizes, rep, guards, base):
        self.ctx, self.sizes, self.rep, self.guards, self.base = ctx, sizes, rep, guards, base

    def post(self, w, twin, r, r0, sig, case, mutating):
        """Everything that must hold once the operation has returned."""
        rep, ctx, g = self.rep, self.ctx, self.guards
        ok = True
        if r != r0:
            rep.add(dict(sig, cls='result'), case, 'result %r, uncached twin %r' % (r, r0))
            ok = False
        st = w.sticky()
        if st:
            rep.add(dict(sig, cls='sticky'), case,
                    'node(s) left pinned (STICKY) after the operation returned %r: %r' % (r[:2], st))
            ok = False
        try:
            got = norm(O.contents(ctx, w.t))
            gotb = norm(O.contents(ctx, w.b))
        except Exception as e:      # noqa
            rep.add(dict(sig, cls='unreadable-' + type(e).__name__), case,
                    'container unreadable afterwards: %r' % (e,))
            return False
        want = norm(O.contents(ctx, twin.t))
        wantb = norm(O.contents(ctx, twin.b))
        if got != want or gotb != wantb:
            rep.add(dict(sig, cls='contents'), case,
                    'contents %r / operand %r; uncached twin %r / %r' % (got, gotb, want, wantb))
            return False
        st = w.sticky()
        if st:
            rep.add(dict(sig, cls='sticky-after-read'), case, 'node(s) pinned after reading back: %r' % (st,))
            ok = False
        if mutating and ok:
            try:
                cw = C.dump(w.t, ctx.is_tree)
                ct = C.dump(twin.t, ctx.is_tree)
            except Exception as e:      # noqa
                rep.add(dict(sig, cls='dump-failed'), case, repr(e))
                return False
            if shape_norm(cw) != shape_norm(ct):
                rep.add(dict(sig, cls='shape'), case, 'shape %r, uncached twin %r' % (cw, ct))
                ok = False
        return ok

    def final(self, w, twin, sig, case, mutating):
        """Final sweep: every node that is not changed becomes a ghost; commit; fresh reader."""
        rep, ctx, g = self.rep, self.ctx, self.guards
        w.sweep()
        left = [(type(o).__name__, o._p_state) for o in w.objects() if o._p_state not in (-1, 1)]
        if left:
            rep.add(dict(sig, cls='not-evictable'), case,
                    'after a final sweep these nodes are neither ghosts nor changed: %r' % (left,))
            return False
        g['final_sweep_all_ghost'] += 1
        if mutating:
            try:
                w.conn.commit()
                conn, r = M.open_tree(w.storage, w.t._p_oid)
                got = norm(O.contents(ctx, r))
            except Exception as e:      # noqa
                rep.add(dict(sig, cls='commit-' + type(e).__name__), case,
                        'commit / reload after the operation: %r' % (e,))
                return False
            g['reader_checks'] += 1
            if got != norm(O.contents(ctx, twin.t)):
                rep.add(dict(sig, cls='reader-contents'), case,
                        'a fresh connection reads %r, twin %r' % (got, norm(O.contents(ctx, twin.t))))
                return False
        return True


def job_a(fam, kind, impl, sizes, n, variant, thin, evictions, shard=(0, 1)):
    """Part A.  evictions: 'single' = none/all/every single node; 'all' = none/all."""
    ctx = O.Ctx(fam, kind, impl)
    ex, states = enumerate_states(fam, kind, impl, sizes, n, variant, thin)
    states = states[shard[0]::shard[1]]
    keys, grid, vals = ex.keys, ex.grid, ex.vals
    bkeys = keys[::2] + grid[-1:]
    rep = Reporter('C05')
    guards = collections.Counter(ex.guards)
    outcomes = collections.Counter()
    base = dict(part='A', fam=fam, kind=kind, impl=impl, sizes=sizes, n=n, variant=variant, thin=thin,
                evictions=evictions, shard=list(shard))
    chk = Checker(ctx, sizes, rep, guards, base)
    evaluations = distinct = 0
    sample = None
    for hist, model, c in states:
        if rep.full:
            break
        present = model.keylist()
        cat = catalogue(ctx, keys, grid, vals, present)
        master = World(ctx, hist, bkeys, vals)
        if master.lone:
            guards['skipped_states_F12b'] += 1
            continue
        w = master.clone()
        choices = ['none', 'all']
        if evictions == 'single':
            choices += [('node', i) for i in range(len(w.nodes))]
        twin = World(ctx, hist, bkeys, vals, jar=False)
        # twin results: reads on one shared twin, mutators on fresh twins
        twin_res = {}
        for name, tag, mutating, fn in cat:
            if mutating:
                tw = World(ctx, hist, bkeys, vals, jar=False)
                twin_res[name] = (outcome(lambda: fn(tw)), tw)
            else:
                twin_res[name] = (outcome(lambda: fn(twin)), twin)
        for choice in choices:
            cname = choice if isinstance(choice, str) else 'node'
            fresh = False
            for name, tag, mutating, fn in cat:
                if rep.full:
                    break
                if mutating or not fresh:
                    w = master.clone()
                    fresh = True
                slot.set(('C05A', fam, kind, impl, sizes, plain_hist(hist), choice, name))
                nev = w.evict(choice)
                r = outcome(lambda: fn(w))
                r0, tw = twin_res[name]
                evaluations += 1
                guards['A:executions'] += 1
                guards['evict:' + cname] += 1
                guards['tag:' + tag] += 1
                if nev:
                    distinct += 1
                if tag == 'fail' and r0[0] == 'exc':
                    guards['fail_ops_raising'] += 1
                outcomes['%s/%s/%s' % (tag, cname, r0[0] if r0[0] == 'ok' else r0[1])] += 1
                sig = dict(part='A', fam=fam, kind=kind, impl=impl, site=name.split('(')[0].split(' ')[0],
                           tag=tag, evict=cname, out=r0[0] if r0[0] == 'ok' else r0[1])
                case = dict(base, history=plain_hist(hist), evict=choice, op=name)
                if tag == 'pinonly':
                    st = w.sticky()
                    if st:
                        rep.add(dict(sig, cls='sticky'), case, 'node(s) left pinned (STICKY) after the '
                                'operation returned %r: %r' % (r[:2], st))
                    continue
                ok = chk.post(w, tw, r, r0, sig, case, mutating)
                if ok and (mutating or choice == 'all'):
                    ok = chk.final(w, tw, sig, case, mutating)
                    fresh = False if mutating else fresh
                if not ok:
                    fresh = False
                if sample is None and nev and tag == 'delete' and len(hist) >= 3:
                    sample = dict(case, result=r)
    return dict(evaluations=evaluations, distinct=distinct, exhaustive=not rep.full,
                guards=dict(guards), outcomes=dict(outcomes), violations=rep.all(), sample=sample,
                n_states_A=len(states))


def job_b(fam, kind, impl, sizes, n, thin, D, faults=True, lean=False, starts=('loaded', 'ghost'),
          shard=(0, 1)):
    """Part B: sweeps (and faults) inside key comparisons."""
    ctx = O.Ctx(fam, kind, impl)
    ex, states = enumerate_states(fam, kind, impl, sizes, n, 'K', thin)
    states = states[shard[0]::shard[1]]
    keys, grid, vals = ex.keys, ex.grid, ex.vals
    bkeys = keys[::2] + grid[-1:]
    rep = Reporter('C05')
    guards = collections.Counter(ex.guards)
    outcomes = collections.Counter()
    base = dict(part='B', fam=fam, kind=kind, impl=impl, sizes=sizes, n=n, thin=thin, D=D, lean=lean,
                starts=list(starts), shard=list(shard),
                flavour='asan' if impl == 'c' else 'plain')
    chk = Checker(ctx, sizes, rep, guards, base)
    evaluations = distinct = 0
    sample = None
    for hist, model, c in states:
        if rep.full:
            break
        present = model.keylist()
        cat = catalogue(ctx, keys, grid, vals, present)
        master = World(ctx, hist, bkeys, vals)
        if master.lone:
            guards['skipped_states_F12b'] += 1
            continue
        twin = World(ctx, hist, bkeys, vals, jar=False)
        for name, tag, mutating, fn in cat:
            if rep.full:
                break
            if ' sweep@' in name or tag == 'pinonly':
                continue        # python-level sweeps belong to part A
            if lean and tag == 'update':
                continue        # multi-key updates are enumerated in the non-thinned spaces
            if mutating:
                tw = World(ctx, hist, bkeys, vals, jar=False)
            else:
                tw = twin
            r0 = outcome(lambda: fn(tw))
            for start in starts:
                # counting run
                w = master.clone()
                if start == 'ghost':
                    w.evict('all')
                kkey.arm()
                rc = outcome(lambda: fn(w))
                cnt = kkey.disarm()
                sig0 = dict(part='B', fam=fam, kind=kind, impl=impl, site=name.split('(')[0].split(' ')[0],
                            tag=tag, start=start, out=r0[0] if r0[0] == 'ok' else r0[1],
                            mutating=mutating)
                case0 = dict(base, history=plain_hist(hist), op=name, start=start)
                chk.post(w, tw, rc, r0, dict(sig0, dev='none'), dict(case0, dev=None), mutating)
                outcomes['%s/%s/%d-comparisons' % (tag, start, min(cnt, 9))] += 1
                devs = [('sweep', (i,)) for i in range(cnt)]
                if D >= 2:
                    devs += [('sweep', (i, j)) for i in range(cnt) for j in range(i + 1, cnt)]
                if faults:
                    devs += [('fault', (i,)) for i in range(cnt)]
                    if D >= 2:
                        devs += [('sweep+fault', (i, j)) for i in range(cnt) for j in range(i + 1, cnt)]
                reuse = None
                for dkind, idx in devs:
                    if rep.full:
                        break
                    slot.set(('C05B', fam, kind, impl, sizes, plain_hist(hist), name, start, dkind, idx))
                    if mutating or reuse is None:
                        w = master.clone()
                    else:
                        w = reuse
                    if start == 'ghost':
                        w.evict('all')
                    else:
                        for o in w.nodes:       # all loaded
                            if o._p_state == -1:
                                o._p_activate()
                    loads0 = sum(1 for e in w.conn.log if e[0] == 'setstate')
                    if dkind == 'sweep':
                        kkey.arm(hook_at=idx, hook=w.conn.sweep)
                    elif dkind == 'fault':
                        kkey.arm(fail_at=idx[0])
                    else:
                        kkey.arm(hook_at=idx[:1], hook=w.conn.sweep, fail_at=idx[1])
                    r = outcome(lambda: fn(w))
                    kkey.disarm()
                    evaluations += 1
                    distinct += 1
                    guards['B:executions'] += 1
                    guards['tag:' + tag] += 1
                    sig = dict(sig0, dev=dkind)
                    case = dict(case0, dev=dkind, at=list(idx), of=cnt)
                    if not kkey.S.fired:
                        # an earlier sweep changed the number of comparisons: legitimate only
                        # for the later index of a pair
                        if len(idx) == 1:
                            rep.add(dict(sig, cls='nondeterministic-count'), case,
                                    'comparison #%r not reached on the second run (%d counted)' % (idx, cnt))
                            reuse = None
                            continue
                    if 'fault' in dkind and kkey.S.fault_fired:
                        guards['inop_fault_fired'] += 1
                        want = ('exc', 'CmpFault')
                        # the failing comparison must reach the caller; what is left behind is
                        # C14's subject - here: nothing stays pinned, everything can be evicted
                        if r != want:
                            # C14 reports swallowed faults; not a C05 matter
                            guards['fault_not_propagated'] += 1
                        st = w.sticky()
                        if st:
                            rep.add(dict(sig, cls='sticky'), case,
                                    'node(s) left pinned after comparison #%d raised: %r' % (idx[-1], st))
                        else:
                            w.sweep()
                            left = [(type(o).__name__, o._p_state) for o in w.objects()
                                    if o._p_state not in (-1, 1)]
                            if left:
                                rep.add(dict(sig, cls='not-evictable'), case,
                                        'after the failed operation and a sweep: %r' % (left,))
                        reuse = None
                        continue
                    if dkind == 'sweep':
                        guards['inop_sweep_fired'] += 1
                    if sum(1 for e in w.conn.log if e[0] == 'setstate') > loads0:
                        guards['reloaded_inside_op'] += 1
                    ok = chk.post(w, tw, r, r0, sig, case, mutating)
                    if ok:
                        ok = chk.final(w, tw, sig, case, mutating)
                    reuse = w if (ok and not mutating) else None
                    if sample is None and mutating and len(hist) >= 3 and len(idx) == 1 and idx[0] >= 2:
                        sample = dict(case, result=r)
    return dict(evaluations=evaluations, distinct=distinct, exhaustive=not rep.full,
                guards=dict(guards), outcomes=dict(outcomes), violations=rep.all(), sample=sample,
                n_states_B=len(states))


# --------------------------------------------------------------------------

def configs_a(tier):
    """(fam, kind, impl, sizes, n, variant, thin, evictions, weight)"""
    out = []
    deep = F.COVER
    n5 = {('OO', 'BTree'), ('IF', 'BTree'), ('fs', 'BTree'), ('LQ', 'TreeSet'), ('UI', 'TreeSet'),
          ('OU', 'TreeSet')}
    thinq = {('OO', 'BTree'), ('QL', 'BTree'), ('IF', 'TreeSet'), ('fs', 'TreeSet')}
    for fam in F.FAMILIES:
        for impl in F.IMPLS:
            c = impl == 'c'
            for kind in F.KINDS:
                tree = kind in F.TREE_KINDS
                if not tree:
                    out.append((fam, kind, impl, None, 3 if fam in deep else 2, 'centred', None, 'single', 2))
                    continue
                if fam in deep:
                    if tier == 'quick':
                        out.append((fam, kind, impl, (2, 2), 4, 'centred', None, 'single', 10 if c else 15))
                        if c:
                            out.append((fam, kind, impl, (3, 2), 4, 'centred', None, 'all', 5))
                            if (fam, kind) in n5:
                                out.append((fam, kind, impl, (2, 2), 5, 'centred', None, 'all', 45))
                            if (fam, kind) in thinq:
                                out.append((fam, kind, impl, (2, 2), 7, 'centred', 'asc', 'all', 40))
                        elif (fam, kind) == ('OO', 'BTree'):
                            out.append((fam, kind, impl, (2, 2), 7, 'centred', 'asc', 'all', 45))
                    else:
                        out.append((fam, kind, impl, (2, 2), 5, 'centred', None, 'single', 400))
                        out.append((fam, kind, impl, (3, 2), 5, 'centred', None, 'all', 60))
                        out.append((fam, kind, impl, (2, 3), 5, 'centred', None, 'all', 60))
                        if c and kind == 'BTree':
                            out.append((fam, kind, impl, (2, 2), 6, 'centred', None, 'all', 600))
                        out.append((fam, kind, impl, (2, 2), 8, 'centred', 'asc' if kind == 'BTree' else 'desc',
                                    'all', 150))
                        if fam[0] == 'O' and c:
                            out.append((fam, kind, impl, (2, 2), 4, 'none', None, 'all', 30))
                        if c:
                            out.append((fam, kind, impl, (2, 2), 4, 'extreme', None, 'all', 30))
                else:
                    out.append((fam, kind, impl, (2, 2), 3 if tier == 'quick' else 4, 'centred', None,
                                'single', 3 if c else 9))
    return out


def configs_b(tier):
    """(fam, kind, impl, sizes, n, thin, D, lean, weight)"""
    out = []
    if tier == 'quick':
        for fam, kind in (('OO', 'BTree'), ('OI', 'TreeSet')):
            out.append((fam, kind, 'c', (2, 2), 4, None, 1, False, 30))
            out.append((fam, kind, 'c', (2, 2), 6, 'asc', 1, True, 120))
            out.append((fam, kind, 'py', (2, 2), 3, None, 1, False, 20))
        for fam, kind in (('OI', 'BTree'), ('OO', 'TreeSet')):
            out.append((fam, kind, 'c', (3, 2), 4, None, 1, False, 25))
        out.append(('OO', 'BTree', 'c', (2, 2), 3, None, 2, False, 25))
        for fam in ('OO', 'OI'):
            for kind in ('Bucket', 'Set'):
                out.append((fam, kind, 'c', None, 3, None, 2, False, 15))
                out.append((fam, kind, 'py', None, 3, None, 1, False, 3))
        return out
    for fam in ('OO', 'OI', 'OL', 'OU', 'OQ'):
        heavy = fam in ('OO', 'OI')
        for impl in F.IMPLS:
            c = impl == 'c'
            for kind in F.KINDS:
                tree = kind in F.TREE_KINDS
                if not tree:
                    out.append((fam, kind, impl, None, 4, None, 2 if c else 1, False, 30))
                    continue
                if c:
                    if heavy:
                        out.append((fam, kind, impl, (2, 2), 5, None, 1, False, 900))
                        out.append((fam, kind, impl, (2, 2), 4, None, 2, True, 480))
                        out.append((fam, kind, impl, (2, 2), 8, 'asc' if kind == 'BTree' else 'desc', 1, True, 600))
                    else:
                        out.append((fam, kind, impl, (2, 2), 4, None, 1, False, 120))
                    out.append((fam, kind, impl, (3, 2), 4, None, 1, False, 60))
                    out.append((fam, kind, impl, (2, 3), 4, None, 1, False, 60))
                elif heavy:
                    out.append((fam, kind, impl, (2, 2), 4, None, 1, False, 120))
    return out


def jobs(tier):
    js = []
    for fam, kind, impl, sizes, n, variant, thin, ev, w in configs_a(tier):
        m = max(1, min(8, w // 150))
        for i in range(m):
            js.append({'fn': 'job_a', 'weight': w // m, 'group': 'A/%s/%s' % (impl, kind),
                       'args': dict(fam=fam, kind=kind, impl=impl, sizes=sizes, n=n, variant=variant,
                                    thin=thin, evictions=ev, shard=(i, m))})
    for fam, kind, impl, sizes, n, thin, D, lean, w in configs_b(tier):
        m = max(1, min(8, w // 60))
        for i in range(m):
            js.append({'fn': 'job_b', 'weight': w // m, 'group': 'B/%s/%s' % (impl, kind),
                       'flavour': 'asan' if impl == 'c' else 'plain',
                       'args': dict(fam=fam, kind=kind, impl=impl, sizes=sizes, n=n, thin=thin, D=D,
                                    lean=lean, shard=(i, m),
                                    starts=('ghost',) if (tier == 'quick' and kind in F.TREE_KINDS)
                                    else ('loaded', 'ghost'))})
    return js


def replay(case):
    sizes = case.get('sizes') and tuple(case['sizes'])
    if case['part'] == 'A':
        r = job_a(case['fam'], case['kind'], case['impl'], sizes, case['n'], case['variant'],
                  case.get('thin'), case['evictions'], shard=tuple(case.get('shard', (0, 1))))
        keyf = ('history', 'evict', 'op')
    else:
        r = job_b(case['fam'], case['kind'], case['impl'], sizes, case['n'], case.get('thin'), case['D'],
                  lean=case.get('lean', False), starts=tuple(case.get('starts', ('loaded', 'ghost'))),
                  shard=tuple(case.get('shard', (0, 1))))
        keyf = ('history', 'op', 'start', 'dev', 'at')
    want = _lists(tuple(case.get(k) for k in keyf))
    vs = [v for v in r['violations'] if _lists(tuple(v['case'].get(k) for k in keyf)) == want]
    return dict(violations=vs)


def _lists(x):
    if isinstance(x, (list, tuple)):
        return [_lists(i) for i in x]
    return x
