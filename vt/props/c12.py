"""C12 - weighted union / intersection follow the documented formula.

E5: operand pairs (Set / TreeSet / Bucket / BTree in two shapes, None) over all ordered
pairs of key subsets x weight pairs of the value type x default-weight call forms; every
numeric-valued family, both implementations; exact evaluation of the documented formula.
"""
import collections
import itertools

from .. import fam as F
from .. import canon as C
from .. import slot
from ..report import Reporter

LEVEL = 'exploration'
RULE = ('for every ordered pair (A, B) of key subsets, every pair of operand forms (Set, TreeSet, '
        'Bucket, BTree - ascending-built and deletion-thinned at node sizes 2/2 - and None) and every '
        'weight pair of the alphabet (plus the default-weight call forms) weightedUnion and '
        'weightedIntersection are called and (weight, kind, items) compared with the documented '
        'formula evaluated exactly; cases whose exact value is not representable in the value type '
        'are counted and skipped; operands must stay unchanged; evaluations = calls; '
        'distinct_nontrivial = calls with both operands non-empty containers')
TRUSTED = ['CPython 3.12', 'persistent 6.8', 'vt harness']
ASSUMPTIONS = ['key universes of 3 keys (all weight pairs) and 4 keys (two weight pairs); value and '
               'weight alphabets (values include 0, weights include 0, 1, a fraction / a negative, a big one) chosen so that float products and sums are exact in single precision']

# '/sub': an instance of an application subclass of the container class
# '/ghost': stored through a data manager and deactivated - the operation has to load it
FORMS = ['Set', 'TreeSet', 'TreeSet/thin', 'Bucket', 'BTree', 'BTree/thin', 'Set/sub', 'Bucket/sub',
         'TreeSet/sub', 'Bucket/ghost', 'Set/ghost', 'None']


def bounds(tier):
    return ('quick: 16 numeric-valued families x 2 implementations; N=3 x all weight pairs, N=4 x 3 '
            'weight pairs; operand forms Set, TreeSet, Bucket, BTree (thinned multi-leaf trees too) and instances of '
            'application subclasses of Set / Bucket / TreeSet, ghost Bucket / Set operands that the call has to load; thorough: N=4 x all weight pairs, N=5 x 3 weight pairs')


def required_guards(tier):
    return ['union', 'intersection', 'both_sets', 'set_and_mapping', 'both_mappings', 'none_operand', 'ghost_operand',
            'default_weights', 'big_weight', 'fractional_weight', 'zero_value']


def jobs(tier):
    js = []
    for fam in F.FAMILIES:
        if not F.has_weighted(fam):
            continue
        for impl in F.IMPLS:
            w = 8 if impl == 'py' else 2
            if fam[0] == 'O':
                js.append({'fn': 'job', 'weight': w, 'group': impl,
                           'args': dict(fam=fam, impl=impl, n=3, weights='few', variant='none')})
            if tier == 'quick':
                js.append({'fn': 'job', 'weight': w, 'group': impl,
                           'args': dict(fam=fam, impl=impl, n=3, weights='all')})
                js.append({'fn': 'job', 'weight': w * 2, 'group': impl,
                           'args': dict(fam=fam, impl=impl, n=4, weights='few')})
            else:
                js.append({'fn': 'job', 'weight': w * 10, 'group': impl,
                           'args': dict(fam=fam, impl=impl, n=4, weights='all')})
                js.append({'fn': 'job', 'weight': w * 10, 'group': impl,
                           'args': dict(fam=fam, impl=impl, n=5, weights='few')})
    return js


def alphabets(fam):
    vt = fam[1]
    if vt == 'F':
        vals = [0.5, 0.0, -2.0, 4.0]      # a stored 0 must stay 0 whatever its weight (seed C12H)
        ws = [0.0, 1.0, 0.5, -1.75, 3.0, 1024.0]
        rng = None
    else:
        lo, hi = F.INT_RANGE[vt]
        vals = [1, 0, 3, 7]
        ws = [0, 1, 2, 3]
        if lo < 0:
            ws.append(-1)
            vals[2] = -3
        if vt in 'LQ':
            ws.append(2 ** 40 + 3)
        else:
            ws.append(2 ** 20 + 3)
        rng = (lo, hi)
    return vals, ws, rng


def make(fam, impl, form, subset, keys, vals):
    if form == 'None':
        return None
    kind = form.split('/')[0]
    cls = F.cls(fam, kind, impl)
    if form.endswith('/sub'):
        from .c10 import subclass_of
        cls = subclass_of(cls)
    c = cls()
    ismap = kind in F.MAP_KINDS
    order = list(keys) if form.endswith('thin') else list(subset)
    for k in order:
        if ismap:
            c[k] = vals[keys.index(k) % len(vals)]
        else:
            c.add(k)
    if form.endswith('thin'):
        for k in keys:
            if k not in subset:
                if ismap:
                    del c[k]
                else:
                    c.remove(k)
    if form.endswith('/ghost'):
        from .c10 import ghostify
        ghostify(c)
    return c


def job(fam, impl, n, weights, variant='centred'):
    mod = F.module(fam)
    sfx = 'Py' if impl == 'py' else ''
    keys, grid = F.universe(fam, n, variant)
    vals, ws, rng = alphabets(fam)
    F.set_sizes(fam, 2, 2)
    # the n=4 jobs leave the third subclass form to the n=3 jobs
    forms = FORMS if n <= 3 else [f for f in FORMS if f not in ('TreeSet/sub', 'Set/ghost', 'Bucket/sub')]
    wpairs = list(itertools.product(ws, repeat=2))
    if weights == 'few':
        wpairs = [(ws[1], ws[1]), (ws[2], ws[-1]), (ws[-1], ws[3])]
    funcs = [('union', getattr(mod, 'weightedUnion' + sfx)),
             ('intersection', getattr(mod, 'weightedIntersection' + sfx))]
    rep = Reporter('C12')
    guards = collections.Counter()
    evaluations = 0
    distinct = 0
    sample = None
    subsets = [tuple(k for k, c in zip(keys, combo) if c)
               for combo in itertools.product((False, True), repeat=len(keys))]
    setname, bucketname = fam + 'Set', fam + 'Bucket'
    base = dict(fam=fam, impl=impl, n=n, weights=weights, variant=variant)
    is_float = fam[1] == 'F'

    def value_map(form, subset):
        kind = form.split('/')[0]
        if kind in F.MAP_KINDS:
            return {k: vals[keys.index(k) % len(vals)] for k in subset}, True
        return {k: 1 for k in subset}, False

    def representable(x):
        if is_float:
            import struct
            try:
                return struct.unpack('f', struct.pack('f', x))[0] == x
            except (OverflowError, struct.error):
                return False
        return rng[0] <= x <= rng[1]

    for A, B in itertools.product(subsets, repeat=2):
        if rep.full:
            break
        for fa in forms:
            for fb in forms:
                m1, ismap1 = value_map(fa, A)
                m2, ismap2 = value_map(fb, B)
                for wspec in wpairs + ['default', 'w1-only']:
                    if wspec == 'default':
                        w1, w2 = (1, 1)
                        args = ()
                    elif wspec == 'w1-only':
                        w1, w2 = ws[3], 1
                        args = (w1,)
                    else:
                        w1, w2 = wspec
                        args = (w1, w2)
                    for fname, fn in funcs:
                        slot.set(('C12', fam, impl, A, B, fa, fb, wspec, fname))
                        a = make(fam, impl, fa, A, keys, vals)
                        b = make(fam, impl, fb, B, keys, vals)
                        # (a ghost operand is not touched before the call)
                        sa = C.dump(a, 'Tree' in fa) if a is not None and 'ghost' not in fa else None
                        sb = C.dump(b, 'Tree' in fb) if b is not None and 'ghost' not in fb else None
                        case = dict(base, A=list(A), B=list(B), fa=fa, fb=fb, w=list(args), fn=fname)
                        # expected
                        if a is None and b is None:
                            want = (0, None, None)
                        elif a is None:
                            want = (w2, 'same-b', None)
                        elif b is None:
                            want = (w1, 'same-a', None)
                        else:
                            ks = sorted(set(A) | set(B) if fname == 'union' else set(A) & set(B),
                                        key=F.skey)
                            if not ismap1 and not ismap2:
                                want = (1 if fname == 'union' else w1 + w2, setname, ks)
                            else:
                                items = [(k, m1.get(k, 0) * w1 + m2.get(k, 0) * w2) for k in ks]
                                want = (1, bucketname, items)
                                if not all(representable(v) for k, v in items):
                                    guards['skipped_unrepresentable'] += 1
                                    continue
                        if want[0] is not None and not isinstance(want[0], str) and want[1] == setname \
                                and fname == 'intersection' and not representable(want[0]):
                            guards['skipped_unrepresentable'] += 1
                            continue
                        try:
                            r = fn(a, b, *args)
                            got_w, got_c = r
                        except Exception as e:      # noqa
                            rep.add(dict(site=fname, cls='exc-' + type(e).__name__, impl=impl,
                                         fa=fa.split('/')[0], fb=fb.split('/')[0]), case,
                                    'weighted%s(%s %r, %s %r, %r) raised %r'
                                    % (fname.capitalize(), fa, A, fb, B, args, e))
                            continue
                        evaluations += 1
                        guards[fname] += 1
                        if wspec in ('default', 'w1-only'):
                            guards['default_weights'] += 1
                        if not isinstance(wspec, str):
                            if any(isinstance(x, float) and x != int(x) for x in wspec):
                                guards['fractional_weight'] += 1
                            if any(abs(x) > 1000 for x in wspec):
                                guards['big_weight'] += 1
                        if a is None or b is None:
                            guards['none_operand'] += 1
                            exp_obj = None if want[1] is None else (b if want[1] == 'same-b' else a)
                            if got_c is not exp_obj or got_w != want[0]:
                                rep.add(dict(site=fname, cls='none-convention', impl=impl,
                                             fa=fa.split('/')[0], fb=fb.split('/')[0]), case,
                                        'weighted%s(%s, %s, %r) -> (%r, %r), documented (%r, %s)'
                                        % (fname.capitalize(), fa, fb, args, got_w, got_c, want[0], want[1]))
                            continue
                        if A and B:
                            distinct += 1
                        if (ismap1 and any(m1[k] == 0 for k in A)) or (ismap2 and any(m2[k] == 0 for k in B)):
                            guards['zero_value'] += 1
                        guards['both_sets' if (not ismap1 and not ismap2) else
                               ('both_mappings' if (ismap1 and ismap2) else 'set_and_mapping')] += 1
                        tn = type(got_c).__name__
                        if tn.endswith('Py'):
                            tn = tn[:-2]
                        try:
                            got_items = list(got_c.items()) if want[1] == bucketname and \
                                hasattr(got_c, 'items') else list(got_c)
                        except Exception as e:      # noqa
                            got_items = ('exc', type(e).__name__)
                        problem = None
                        if got_w != want[0]:
                            problem = 'weight'
                        elif tn != want[1]:
                            problem = 'kind'
                        elif got_items != want[2]:
                            problem = 'items'
                        if problem:
                            rep.add(dict(site=fname, cls=problem, impl=impl, fa=fa.split('/')[0],
                                         fb=fb.split('/')[0],
                                         wkind='default' if isinstance(wspec, str) else (
                                             'big' if any(abs(x) > 1000 for x in wspec) else (
                                                 'frac' if any(x != int(x) for x in wspec) else 'small'))),
                                    case,
                                    'weighted%s(%s %r, %s %r, %r) -> (%r, %s %r), expected (%r, %s %r)'
                                    % (fname.capitalize(), fa, A, fb, B, args, got_w, tn, got_items,
                                       want[0], want[1], want[2]))
                        if 'ghost' in fa or 'ghost' in fb:
                            guards['ghost_operand'] += 1
                        if ('ghost' not in fa and C.dump(a, 'Tree' in fa) != sa) or \
                                ('ghost' not in fb and C.dump(b, 'Tree' in fb) != sb) or \
                                ('ghost' in fa and list(a.keys()) != list(A)) or \
                                ('ghost' in fb and list(b.keys()) != list(B)):
                            rep.add(dict(site=fname, cls='operand-modified', impl=impl), case,
                                    'an operand was modified')
                        if sample is None and A and B and ismap1 != ismap2 and not isinstance(wspec, str):
                            sample = dict(case, result=[got_w, tn, got_items])
    return dict(evaluations=evaluations, distinct=distinct, exhaustive=not rep.full,
                guards=dict(guards), violations=rep.all(), sample=sample)


def replay(case):
    r = job(case['fam'], case['impl'], case['n'], case['weights'], case.get('variant', 'centred'))
    vs = [v for v in r['violations'] if all(v['case'].get(k) == case.get(k)
                                            for k in ('A', 'B', 'fa', 'fb', 'w', 'fn'))]
    return dict(violations=vs)
