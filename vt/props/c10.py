"""C10 - union / intersection / difference compute the mathematical result.

E5: all ordered pairs of key subsets of a small universe x operand kinds (Set, TreeSet,
Bucket, BTree in several shapes, sorted / shuffled-with-duplicates list, tuple, generator,
Python set, dict) x operations (module union/intersection/difference, | & - ^ and the
in-place forms) x None operands; all families, both implementations.
"""
import collections
import itertools

from .. import fam as F
from .. import canon as C
from .. import slot
from ..report import Reporter
from ..kkey import UH

LEVEL = 'exploration'
RULE = ('for every ordered pair (A, B) of subsets of the key universe, every pair of operand kinds '
        '(containers in several internal shapes, plain iterables sorted or shuffled with '
        'duplicates, generators, None) and every operation (module union / intersection / '
        'difference, operators | & - ^, in-place |= &= -= ^=) the result is compared with Python '
        'set algebra: key list strictly ascending and duplicate-free, documented result kind, '
        'values of the first operand kept by difference, operands other than the in-place target '
        'unchanged (canonical dump / list equality before and after); evaluations = operations '
        'executed; distinct_nontrivial = distinct (A, B, kinds, op) with A and B both non-empty')
TRUSTED = ['CPython 3.12', 'persistent 6.8', 'vt harness']
ASSUMPTIONS = ['key universe of 4 (quick) / 5 (thorough) keys incl. the family extremes in a second '
               'universe; node sizes 2/2 for tree operands']

SET_KINDS = ('Set', 'TreeSet')


def bounds(tier):
    return ('quick: all 22 families x both implementations, 4-key universe (256 ordered subset pairs) '
            'x 18 x 18 operand forms (incl. subclass instances, ghost operands that the operation has to load, one-shot iterators, equal-but-distinct key objects) x up to 11 operations, plus the extreme universe for set/tree '
            'operands; deep thinned tree operands: BTree / TreeSet of 12 keys at node sizes 2/2 (3+ levels) with every contiguous key run deleted '
            '(ascending and descending) x 4 Set/Bucket operands x 3 module functions x both sides, families II OO LF; '
            'thorough: 5-key universe, deep thinned operands with 16 keys for all families')


def required_guards(tier):
    return ['module', 'operator', 'reflected_operator', 'inplace', 'none_operand', 'iterable_operand', 'multi_leaf_operand', 'ghost_operand',
            'unchanged_checked', 'deep_thinned_operand']


def jobs(tier):
    js = []
    n = 4 if tier == 'quick' else 5
    for fam in F.FAMILIES:
        for impl in F.IMPLS:
            for variant in ('centred', 'extreme') + (('none', 'unhash') if fam[0] == 'O' else ()):
                js.append({'fn': 'job', 'weight': (10 if impl == 'py' else 2) * (1 if variant == 'extreme' else 3),
                           'group': impl,
                           'args': dict(fam=fam, impl=impl, n=n if variant == 'centred' else 3,
                                        variant=variant)})
    # wave 7 (seed C10M): operands that are trees of 3+ levels thinned by every contiguous run of deletions
    for fam in (('II', 'OO', 'LF') if tier == 'quick' else F.FAMILIES):
        for impl in F.IMPLS:
            js.append({'fn': 'deep_thin_job', 'weight': 6 if impl == 'py' else 2, 'group': impl,
                       'args': dict(fam=fam, impl=impl, n=12 if tier == 'quick' else 16)})
    return js


# --------------------------------------------------------------------------

FORMS = ['Set', 'TreeSet', 'TreeSet/thin', 'Bucket', 'BTree', 'BTree/thin', 'Set/sub', 'BTree/sub',
         'Set/ghost', 'Bucket/ghost', 'list', 'list/shuffled+dup', 'tuple', 'gen', 'iter', 'pyset', 'dict', 'None']
CONTAINER_FORMS = FORMS[:10]
ONE_SHOT = ('gen', 'iter')
REFLECTED_LEFT = ('list/shuffled+dup', 'tuple', 'pyset')

_subs = {}
GHOST = ('ghost',)


def subclass_of(cls):
    """An application subclass of a container class (operands and targets may be instances of one)."""
    c = _subs.get(cls)
    if c is None:
        c = _subs[cls] = type('Sub' + cls.__name__, (cls,), {})
    return c


def clone(k):
    """An object equal to k but - where the type allows - not the same object: the elements of a plain
    iterable operand are the caller's objects, and two equal keys in it need not be identical."""
    if isinstance(k, UH):
        return UH(k.v)
    if type(k) is int:
        return int(str(k))          # a new object outside the small-int cache
    if type(k) is bytes:
        return bytes(bytearray(k))
    return k


def make(fam, impl, form, subset, keys, vals):
    """-> (operand object, kind name, is_mapping)"""
    kind = form.split('/')[0]
    if form == 'None':
        return None
    if kind in F.KINDS:
        cls = F.cls(fam, kind, impl)
        if form.endswith('/sub'):
            cls = subclass_of(cls)
        c = cls()
        order = list(keys) if form.endswith('thin') else list(subset)
        ismap = kind in F.MAP_KINDS
        for k in order:
            if ismap:
                c[k] = vals[keys.index(k) % 2]
            else:
                c.add(k)
        if form.endswith('thin'):
            for k in keys:
                if k not in subset:
                    if ismap:
                        del c[k]
                    else:
                        c.remove(k)
        if form.endswith('/ghost'):
            ghostify(c)
        return c
    if form == 'list':
        return [clone(k) for k in subset]
    if form == 'list/shuffled+dup':
        s = list(subset)
        s = s[1::2] + s[::2][::-1]
        return [clone(k) for k in s + s[:1]]
    if form == 'tuple':
        return tuple(clone(k) for k in reversed(subset))
    if form == 'gen':
        return (clone(k) for k in reversed(subset))
    if form == 'iter':          # a one-shot iterator that is not a generator
        return iter([clone(k) for k in reversed(subset)])
    if form == 'pyset':
        return set(subset)
    if form == 'dict':
        return {k: vals[0] for k in subset}
    raise ValueError(form)


def ghostify(c):
    """Store the container through a data manager (vt.minidb) and deactivate it: the operand of the
    operation is then a GHOST that the operation itself has to load."""
    from .. import minidb as M
    conn = M.Connection(M.Storage())
    conn.add(c)
    conn.commit()
    c._p_deactivate()
    if c._p_state != -1:
        raise RuntimeError('operand did not turn into a ghost')


def snapshot(obj, form):
    kind = form.split('/')[0]
    if obj is None or form in ONE_SHOT:
        return None
    if form.endswith('/ghost') and obj._p_state == -1:
        return GHOST        # not touched before the operation; compared by contents afterwards
    if kind in F.KINDS:
        return C.dump(obj, kind in F.TREE_KINDS)
    if isinstance(obj, (list, tuple)):
        return (type(obj), list(obj))
    if isinstance(obj, set):
        return set(obj)
    return dict(obj)


def describe(r):
    if r is None:
        return ('None', None)
    tn = type(r).__name__
    if tn.startswith('Sub'):
        tn = 'Sub:' + tn[3:]
    if tn.endswith('Py'):
        tn = tn[:-2]
    try:
        if hasattr(r, 'items') and not isinstance(r, (set, list, tuple)) and tn[2:] in ('Bucket', 'BTree'):
            return (tn, list(r.items()))
        return (tn, list(r))
    except Exception as e:      # noqa
        return (tn, ('exc', type(e).__name__))


def run(fn):
    UH.locked = True        # unhashable keys are really unhashable inside the implementation
    try:
        return ('ok', fn())
    except Exception as e:      # noqa
        return ('exc', type(e).__name__)
    finally:
        UH.locked = False


def job(fam, impl, n, variant):
    import operator
    mod = F.module(fam)
    sfx = 'Py' if impl == 'py' else ''
    keys, grid = F.universe(fam, n, variant)
    vals = F.values(fam)
    F.set_sizes(fam, 2, 2)
    rep = Reporter('C10')
    guards = collections.Counter()
    evaluations = 0
    distinct = 0
    sample = None
    subsets = [tuple(k for k, c in zip(keys, combo) if c)
               for combo in itertools.product((False, True), repeat=len(keys))]
    if variant in ('centred', 'unhash'):
        forms = FORMS
    elif variant == 'none':     # None next to ints cannot be sorted in a plain list
        forms = CONTAINER_FORMS + ['None']
    else:
        forms = CONTAINER_FORMS + ['list/shuffled+dup', 'iter', 'None']
    modfuncs = [(name, getattr(mod, name + sfx)) for name in ('union', 'intersection', 'difference')]
    alg = {'union': lambda a, b: a | b, 'intersection': lambda a, b: a & b,
           'difference': lambda a, b: a - b, 'or': lambda a, b: a | b, 'and': lambda a, b: a & b,
           'sub': lambda a, b: a - b, 'xor': lambda a, b: a ^ b}
    alg.update({'r' + k: alg[k] for k in ('or', 'and', 'sub', 'xor')})
    opers = [('or', operator.or_), ('and', operator.and_), ('sub', operator.sub), ('xor', operator.xor)]
    iopers = [('ior', operator.ior, 'or'), ('iand', operator.iand, 'and'),
              ('isub', operator.isub, 'sub'), ('ixor', operator.ixor, 'xor')]
    setname = fam + 'Set'
    bucketname = fam + 'Bucket'
    base = dict(fam=fam, impl=impl, n=n, variant=variant)

    def check_result(opname, fa, fb, A, B, res, case, a_vals):
        """res = describe()d result of a binary operation on forms fa, fb over subsets A, B."""
        math = sorted(alg[opname](set(A), set(B)), key=F.skey)
        tn, content = res
        keys_got = content
        ka = fa.split('/')[0]
        if isinstance(content, tuple):
            rep.add(dict(site=opname, cls='result-unreadable', impl=impl, fa=ka, fb=fb.split('/')[0]),
                    case, 'result %r' % (res,))
            return
        is_items = tn[2:] in ('Bucket', 'BTree')
        if is_items:
            keys_got = [k for k, v in content]
        if keys_got != math:
            cls_ = 'keys'
            if sorted(set(keys_got), key=F.skey) == math:
                cls_ = 'duplicates' if len(keys_got) != len(set(keys_got)) else 'unsorted'
            rep.add(dict(site=opname, cls=cls_, impl=impl, fa=ka, fb=fb.split('/')[0],
                         dup_in=('dup' in fa or 'dup' in fb)), case,
                    '%s(%s %r, %s %r) -> %r, expected keys %r' % (opname, fa, A, fb, B, res, math))
            return
        if is_items and a_vals is not None:
            want = [(k, a_vals[k]) for k in math]
            if content != want:
                rep.add(dict(site=opname, cls='values', impl=impl, fa=ka, fb=fb.split('/')[0]), case,
                        '%s -> %r, expected items %r' % (opname, content, want))
        # documented kinds for the module functions / operators on containers
        exp_kind = None
        if opname in ('union', 'intersection', 'or', 'and', 'ror', 'rand'):
            exp_kind = setname
        elif opname in ('difference', 'sub') and ka in F.KINDS:
            exp_kind = setname if ka in SET_KINDS else bucketname
        if exp_kind and tn != exp_kind:
            rep.add(dict(site=opname, cls='kind', impl=impl, fa=ka, fb=fb.split('/')[0], got=tn[2:]),
                    case, '%s(%s, %s) returned a %s, documented %s' % (opname, fa, fb, tn, exp_kind))

    for A, B in itertools.product(subsets, repeat=2):
        if rep.full:
            break
        for fa in forms:
            for fb in forms:
                ka, kb = fa.split('/')[0], fb.split('/')[0]
                a_is_cont, b_is_cont = ka in F.KINDS, kb in F.KINDS
                if not a_is_cont and not b_is_cont and not (fa == 'None' or fb == 'None'):
                    # two plain iterables: only the module functions, only once per pair of forms
                    if (fa, fb) not in (('list', 'list/shuffled+dup'), ('list/shuffled+dup', 'tuple')):
                        continue
                if A and B:
                    distinct += 1
                case = dict(base, A=list(A), B=list(B), fa=fa, fb=fb)
                slot.set(('C10', fam, impl, A, B, fa, fb))
                a_vals = None
                if ka in F.MAP_KINDS or fa == 'dict':
                    a_vals = {k: (vals[keys.index(k) % 2] if ka in F.MAP_KINDS else vals[0]) for k in A}

                def fresh():
                    a = make(fam, impl, fa, A, keys, vals)
                    b = make(fam, impl, fb, B, keys, vals)
                    return a, b, snapshot(a, fa), snapshot(b, fb)

                def unchanged(opname, a, b, sa, sb, skip_a=False):
                    guards['unchanged_checked'] += 1
                    for which, o, f, s0 in (('first', a, fa, sa), ('second', b, fb, sb)):
                        if which == 'first' and skip_a:
                            continue
                        if s0 is GHOST:
                            sub_ = A if which == 'first' else B
                            got_ = list(o.keys())
                            if got_ != list(sub_):
                                rep.add(dict(site=opname, cls='operand-modified', impl=impl, which=which,
                                             form=f.split('/')[0], ghost=True), case,
                                        '%s: the ghost operand reads %r afterwards, stored %r'
                                        % (opname, got_, list(sub_)))
                            continue
                        if snapshot(o, f) != s0:
                            rep.add(dict(site=opname, cls='operand-modified', impl=impl, which=which,
                                         form=f.split('/')[0]), case,
                                    '%s modified its %s operand (%s): %r -> %r'
                                    % (opname, which, f, s0, snapshot(o, f)))
                # ---- module functions
                for name, fn in modfuncs:
                    if name == 'difference' and not a_is_cont and fa != 'None':
                        continue    # the interface defines difference() for a container c1 only
                    a, b, sa, sb = fresh()
                    r = run(lambda: fn(a, b))
                    evaluations += 1
                    guards['module'] += 1
                    if fa == 'None' or fb == 'None':
                        guards['none_operand'] += 1
                        # documented None conventions
                        if name in ('union', 'intersection'):
                            want = b if a is None else a
                        else:
                            want = None if a is None else a
                        if r[0] != 'ok' or r[1] is not want:
                            if not (r[0] == 'ok' and want is not None and describe(r[1]) == describe(want)):
                                rep.add(dict(site=name, cls='none-convention', impl=impl, fa=ka, fb=kb),
                                        case, '%s(%s, %s) -> %r' % (name, fa, fb, r))
                        continue
                    if not a_is_cont or not b_is_cont:
                        guards['iterable_operand'] += 1
                    if r[0] != 'ok':
                        rep.add(dict(site=name, cls='exc-' + r[1], impl=impl, fa=ka, fb=kb), case,
                                '%s(%s %r, %s %r) raised %s' % (name, fa, A, fb, B, r[1]))
                        continue
                    check_result(name, fa, fb, A, B, describe(r[1]), case, a_vals)
                    if r[1] is a or r[1] is b:
                        rep.add(dict(site=name, cls='not-new', impl=impl, fa=ka, fb=kb), case,
                                '%s returned one of its operands' % name)
                    unchanged(name, a, b, sa, sb)
                    # the result shares no storage with an operand: emptying it must not reach them
                    if r[1] is not a and r[1] is not b and hasattr(r[1], 'clear'):
                        if run(r[1].clear)[0] == 'ok':
                            unchanged(name + '/result-cleared', a, b, sa, sb)
                # ---- reflected operators: a plain iterable on the LEFT of a container (__ror__, __rand__,
                # __rxor__, __rsub__ of the container)
                if fa in REFLECTED_LEFT and b_is_cont and 'ghost' not in fb:
                    for name, fn in opers:
                        if name == 'xor' and kb not in SET_KINDS:
                            continue    # the C Bucket/BTree have no ^
                        a, b, sa, sb = fresh()
                        r = run(lambda: fn(a, b))
                        evaluations += 1
                        guards['reflected_operator'] += 1
                        rname = 'r' + name
                        if name == 'sub' and kb not in SET_KINDS:
                            # `iterable - mapping`: the mappings have no reflected subtraction, TypeError in
                            # both implementations (difference() is defined for a container on the left)
                            if r != ('exc', 'TypeError'):
                                rep.add(dict(site=rname, cls='mapping-rsub', impl=impl, fa=ka, fb=kb), case,
                                        '%s - %s -> %r, expected TypeError' % (fa, fb, r))
                            guards['reflected_sub_mapping_refused'] += 1
                            continue
                        if r[0] != 'ok':
                            rep.add(dict(site=rname, cls='exc-' + r[1], impl=impl, fa=ka, fb=kb), case,
                                    '%s %s %s (reflected) raised %s' % (fa, name, fb, r[1]))
                            continue
                        check_result(rname, fa, fb, A, B, describe(r[1]), case, None)
                        unchanged(rname, a, b, sa, sb)
                if fa == 'None' or fb == 'None' or not a_is_cont:
                    continue
                if 'thin' in fa or 'thin' in fb:
                    guards['multi_leaf_operand'] += 1
                if 'ghost' in fa or 'ghost' in fb:
                    guards['ghost_operand'] += 1
                # ---- binary operators (first operand a container)
                for name, fn in opers:
                    a, b, sa, sb = fresh()
                    if not hasattr(type(a), '__%s__' % name):
                        continue
                    if name == 'xor' and ka not in SET_KINDS:
                        continue    # the C Bucket/BTree have no ^: not part of the shared API
                    r = run(lambda: fn(a, b))
                    evaluations += 1
                    guards['operator'] += 1
                    if r[0] != 'ok':
                        if fb in ONE_SHOT and r[1] == 'TypeError':
                            guards['operator_typeerror_on_generator'] += 1
                            continue
                        rep.add(dict(site=name, cls='exc-' + r[1], impl=impl, fa=ka, fb=kb), case,
                                '%s %s %s raised %s' % (fa, name, fb, r[1]))
                        continue
                    check_result(name, fa, fb, A, B, describe(r[1]), case, a_vals)
                    unchanged(name, a, b, sa, sb)
                # ---- in-place operators (sets)
                if ka in SET_KINDS:
                    for name, fn, algname in iopers:
                        a, b, sa, sb = fresh()
                        r = run(lambda: fn(a, b))
                        evaluations += 1
                        guards['inplace'] += 1
                        if r[0] != 'ok':
                            rep.add(dict(site=name, cls='exc-' + r[1], impl=impl, fa=ka, fb=kb), case,
                                    '%s %s %s raised %s' % (fa, name, fb, r[1]))
                            continue
                        if r[1] is not a:
                            rep.add(dict(site=name, cls='not-in-place', impl=impl, fa=ka, fb=kb), case,
                                    '%s returned a different object' % name)
                            continue
                        math = sorted(alg[algname](set(A), set(B)), key=F.skey)
                        got = list(a)
                        if got != math:
                            rep.add(dict(site=name, cls='keys', impl=impl, fa=ka, fb=kb,
                                         dup_in='dup' in fb), case,
                                    '%s %r %s %s %r -> %r, expected %r' % (fa, A, name, fb, B, got, math))
                        if ka == 'TreeSet':
                            try:
                                a._check()
                            except Exception as e:      # noqa
                                rep.add(dict(site=name, cls='unsound', impl=impl, fa=ka, fb=kb), case,
                                        'target after %s: %r' % (name, e))
                        unchanged(name, a, b, sa, sb, skip_a=True)
                if sample is None and A and B and fa == 'BTree/thin' and fb == 'list/shuffled+dup':
                    sample = case
    return dict(evaluations=evaluations, distinct=distinct, exhaustive=not rep.full,
                guards=dict(guards), violations=rep.all(), sample=sample)


def deep_thin_job(fam, impl, n, only=None):
    """Tree operands with a deletion history: a BTree / TreeSet grown by single inserts to n keys at node
    sizes 2/2 (3+ levels), then every contiguous run keys[i:j] deleted (ascending and descending order);
    the module functions with the thinned tree on either side of three Set/Bucket operands, against
    plain set algebra.  The leaf chain of a thinned tree has seams where leaves and whole subtrees were
    unlinked; a set operation walks that chain."""
    mod = F.module(fam)
    sfx = 'Py' if impl == 'py' else ''
    keys, grid = F.universe(fam, n, 'centred')
    keys = list(keys)
    vals = F.values(fam)
    F.set_sizes(fam, 2, 2)
    rep = Reporter('C10')
    guards = collections.Counter()
    evaluations = 0
    outcomes = set()
    fns = [(name, getattr(mod, name + sfx)) for name in ('union', 'intersection', 'difference')]
    alg = {'union': lambda a, b: a | b, 'intersection': lambda a, b: a & b, 'difference': lambda a, b: a - b}
    others = [tuple(keys), (), tuple(keys[::3]), tuple(keys[1::2])]
    for kind in ('BTree', 'TreeSet'):
        cls = F.cls(fam, kind, impl)
        ismap = kind in F.MAP_KINDS
        for i in range(len(keys)):
            for j in range(i + 1, len(keys) + 1):
                for order in ('asc', 'desc'):
                    if only is not None and (kind, i, j, order) != only:
                        continue
                    def build():
                        t = cls()
                        for k in keys:
                            if ismap:
                                t[k] = vals[0]
                            else:
                                t.add(k)
                        run_ = keys[i:j] if order == 'asc' else keys[i:j][::-1]
                        for k in run_:
                            if ismap:
                                del t[k]
                            else:
                                t.remove(k)
                        return t
                    A = [k for k in keys if k not in keys[i:j]]
                    for B in others:
                        for okind in ('Set', 'Bucket'):
                            for name, fn in fns:
                                for side in ('left', 'right'):
                                    if okind == 'Bucket' and side == 'right' and name == 'difference' and not ismap:
                                        pass
                                    t = build()
                                    ocls = F.cls(fam, okind, impl)
                                    o = ocls({k: vals[0] for k in B}) if okind == 'Bucket' else ocls(B)
                                    case = dict(part='deep', fam=fam, impl=impl, n=n, kind=kind, i=i, j=j, order=order,
                                                B=list(B), okind=okind, op=name, side=side)
                                    a, b = (t, o) if side == 'left' else (o, t)
                                    sa, sb = (A, B) if side == 'left' else (B, A)
                                    r = run(lambda: fn(a, b))
                                    evaluations += 1
                                    guards['module'] += 1
                                    guards['deep_thinned_operand'] += 1
                                    math = sorted(alg[name](set(sa), set(sb)), key=F.skey)
                                    if r[0] != 'ok':
                                        rep.add(dict(site=name, cls='deep-exception', impl=impl, fa=kind, fb=okind), case,
                                                '%s raised %s for a %s thinned by keys[%d:%d] (%s)' % (name, r[1], kind, i, j, order))
                                        continue
                                    got = list(r[1]) if r[1] is not None else []
                                    outcomes.add((name, tuple(map(repr, got))))
                                    if got != math:
                                        rep.add(dict(site=name, cls='deep-keys', impl=impl, fa=kind, fb=okind), case,
                                                '%s(%s) with a %s thinned by keys[%d:%d] (%s, contents %r) and %s %r -> %r, expected %r'
                                                % (name, side, kind, i, j, order, A, okind, list(B), got, math))
                                    if list(t.keys()) != A:
                                        rep.add(dict(site=name, cls='deep-operand-modified', impl=impl, fa=kind, fb=okind), case,
                                                'tree operand reads %r afterwards, expected %r' % (list(t.keys()), A))
                    if rep.full:
                        break
                if rep.full:
                    break
            if rep.full:
                break
    return dict(evaluations=evaluations, distinct=len(outcomes), exhaustive=not rep.full,
                guards=dict(guards), violations=rep.all(), sample=None)


def replay(case):
    """Re-run the recorded (A, B, forms) cell; report whatever it reports."""
    if case.get('part') == 'deep':
        r = deep_thin_job(case['fam'], case['impl'], case['n'],
                          only=(case['kind'], case['i'], case['j'], case['order']))
        vs = [v for v in r['violations'] if all(v['case'].get(k) == case.get(k)
                                                for k in ('B', 'okind', 'op', 'side'))]
        return dict(violations=vs)
    r = job(case['fam'], case['impl'], case['n'], case['variant'])
    vs = [v for v in r['violations'] if all(v['case'].get(k) == case.get(k)
                                            for k in ('A', 'B', 'fa', 'fb'))]
    return dict(violations=vs)
