"""C06 - serialized state round-trips, identically in C and Python.

E1 monitor over the shape spaces: in every reachable state __getstate__/__setstate__,
pickle protocols 0..5, copy.copy, copy.deepcopy, loading each implementation's pickle
with the other implementation's classes, byte comparison of the two implementations'
pickles for the same history, and a usability pass (every op of the alphabet applied to
a reloaded copy must agree with the reference model).
"""
import copy
import io
import pickle

from .. import fam as F
from .. import ops as O
from .. import space as S
from .. import canon as C

LEVEL = 'model_checking'
RULE = ('states = distinct canonical shapes reachable by insert/delete/pop-min/clear (BFS fixed '
        'point); in every state: setstate(getstate) on a fresh object, pickle round trip for '
        'protocols 0..5, copy.copy, copy.deepcopy, cross-implementation load (C pickle into Py '
        'classes and Py pickle into C classes), byte equality of C and Py pickles of the same '
        'history, and every alphabet op applied to a reloaded copy compared with the model; '
        'evaluations = round trips + usability ops; distinct_nontrivial = states')
TRUSTED = ['CPython 3.12 pickle/copy', 'persistent 6.8', 'vt harness (explorer, canonical dump, walk)']
ASSUMPTIONS = ['key universes of <= 6 keys, node sizes {2,3}', 'pickles are taken outside a database '
               '(children pickled inline); database records are covered by C04']

PROTOS = (0, 1, 2, 3, 4, 5)


def bounds(tier):
    return ('quick: cover families deep (trees N=5 @2/2 and @3/2, None/extreme universes N=4), other '
            'families N=4 (C) / N=3 (Py), leaf kinds N=4; thorough: all 22 deep N=6 (C) / N=5 (Py)')


def required_guards(tier):
    return ['height>=3', 'single_child_interior', 'roundtrips', 'usable_ops', 'byte_compared',
            'cross_loaded', 'embedded_form', 'empty_form']


def configs(tier):
    out = []
    deep = F.COVER if tier == 'quick' else F.FAMILIES
    for fam in F.FAMILIES:
        for impl in F.IMPLS:
            c = impl == 'c'
            for kind in F.TREE_KINDS:
                if fam in deep:
                    if tier == 'quick':
                        out.append((fam, kind, impl, (2, 2), 5 if c else 4, 'centred', 10 if c else 30))
                        if c:
                            out.append((fam, kind, impl, (3, 2), 5, 'centred', 3))
                        out.append((fam, kind, impl, (2, 2), 4, 'extreme', 2 if c else 20))
                        if fam[0] == 'O':
                            out.append((fam, kind, impl, (2, 2), 4, 'none', 2 if c else 20))
                    else:
                        out.append((fam, kind, impl, (2, 2), 6 if c else 5, 'centred', 100 if c else 300))
                        for sz in ((2, 3), (3, 2), (3, 3)):
                            out.append((fam, kind, impl, sz, 5, 'centred', 10 if c else 100))
                        out.append((fam, kind, impl, (2, 2), 5, 'extreme', 10 if c else 100))
                        if fam[0] == 'O':
                            out.append((fam, kind, impl, (2, 2), 5, 'none', 10 if c else 100))
                else:
                    out.append((fam, kind, impl, (2, 2), 4 if c else 3, 'centred', 2 if c else 5))
            for kind in ('Bucket', 'Set'):
                for var in F.variants(fam):
                    out.append((fam, kind, impl, None, 4, var, 1 if c else 3))
    return out


def jobs(tier):
    js = []
    for fam, kind, impl, sizes, n, var, w in configs(tier):
        js.append({'fn': 'job', 'weight': w,
                   'group': '%s/%s' % (impl, 'tree' if kind in F.TREE_KINDS else 'leaf'),
                   'args': dict(fam=fam, kind=kind, impl=impl, sizes=sizes, n=n, variant=var)})
    return js


# --------------------------------------------------------------------------

class _CrossUnpickler(pickle.Unpickler):
    """Loads a pickle that names the C classes (BTrees.XXBTree.XXBTree) into the Py classes,
    or - to_py False - leaves the names alone (they resolve to the C classes)."""

    def __init__(self, f, to_py):
        super().__init__(f)
        self.to_py = to_py

    def find_class(self, module, name):
        if module.startswith('BTrees.') and self.to_py and not name.endswith('Py'):
            import importlib
            m = importlib.import_module(module)
            if hasattr(m, name + 'Py'):
                return getattr(m, name + 'Py')
        return super().find_class(module, name)


def load_as(data, to_py):
    return _CrossUnpickler(io.BytesIO(data), to_py).load()


def _impl_of(obj):
    return 'py' if type(obj).__name__.endswith('Py') else 'c'


def roundtrip_monitor(alphabet):
    def mon(ex, hist, t, model, c):
        ctx = ex.ctx
        g = ex.guards
        tree = ctx.is_tree
        want = model.contents()
        other_impl = 'py' if ctx.impl == 'c' else 'c'

        lone = C.has_lone_leaf_node(c) if tree else False
        if lone:
            g['lone_leaf_node_states'] += 1

        def bad(site, cls, detail, **kw):
            ex.report(dict(prop='C06', sig=ex.sig(site, cls, lone=lone, **kw),
                           case=ex.case(hist, (site,)), detail=detail))

        def verify(site, obj, expect_impl=None, shared=False):
            """obj must be an equal, sound container of the expected implementation."""
            g['roundtrips'] += 1
            try:
                if type(obj).__name__.replace('Py', '') != type(t).__name__.replace('Py', ''):
                    return bad(site, 'wrong-class', 'got %s from a %s' % (type(obj).__name__,
                                                                            type(t).__name__))
                if expect_impl and _impl_of(obj) != expect_impl:
                    return bad(site, 'wrong-impl', 'got %s, expected the %s implementation'
                               % (type(obj).__name__, expect_impl))
                c2 = C.dump(obj, tree)
                if c2 != c:
                    return bad(site, 'shape', 'canonical form %r, original %r' % (c2, c))
                got = O.contents(ctx, obj)
                if got != want:
                    return bad(site, 'contents', 'contents %r, expected %r' % (got, want))
                if len(obj) != len(want):
                    return bad(site, 'len', 'len %r, expected %r' % (len(obj), len(want)))
                if tree:
                    obj._check()
            except Exception as e:      # noqa
                return bad(site, 'exc-' + type(e).__name__, 'verifying the copy: %r' % (e,))
            return True

        if c[0] == 'E':
            g['empty_form'] += 1
        elif c[0] == 'I':
            g['embedded_form'] += 1

        # 1. __getstate__ / __setstate__
        try:
            st = t.__getstate__()
            t2 = ctx.new()
            t2.__setstate__(st)
            verify('setstate', t2, ctx.impl)
            # and the state is stable: getstate of the copy equals the state again
            if C.dump(t2, tree) == c and t2.__getstate__() != st and not tree:
                bad('setstate', 'state-unstable', '%r vs %r' % (t2.__getstate__(), st))
        except Exception as e:      # noqa
            bad('setstate', 'exc-' + type(e).__name__, repr(e))

        # 2. pickle protocols; 3. cross loading; byte identity
        twin = None
        if ctx.impl == 'c':
            tctx = ex.twin_ctx
            twin = tctx.new()
            for op in hist:
                O.fast_apply(tctx, twin, op)
        p2 = None
        for proto in PROTOS:
            try:
                data = pickle.dumps(t, proto)
            except Exception as e:      # noqa
                bad('pickle', 'exc-' + type(e).__name__, 'dumps proto %d: %r' % (proto, e), proto=proto)
                continue
            if proto == 2:
                p2 = data
            try:
                # the names in the stream are the C classes' names
                verify('pickle-load-c', load_as(data, False), 'c')
                verify('pickle-load-py', load_as(data, True), 'py')
                g['cross_loaded'] += 1
            except Exception as e:      # noqa
                bad('pickle', 'exc-' + type(e).__name__, 'loads proto %d: %r' % (proto, e), proto=proto)
            if twin is not None:
                g['byte_compared'] += 1
                try:
                    d2 = pickle.dumps(twin, proto)
                except Exception as e:      # noqa
                    bad('pickle-twin', 'exc-' + type(e).__name__, 'py dumps proto %d: %r' % (proto, e))
                    continue
                if d2 != data:
                    bad('pickle-bytes', 'differ', 'proto %d: C %r, Py %r' % (proto, data, d2), proto=proto)

        # 4. copy / deepcopy
        for name, fn in (('copy', copy.copy), ('deepcopy', copy.deepcopy)):
            try:
                t3 = fn(t)
            except Exception as e:      # noqa
                bad(name, 'exc-' + type(e).__name__, '%s(): %r' % (name, e),
                    multi=c[0] not in ('E', 'I', 'B'))
                continue
            if t3 is t:
                bad(name, 'same-object', 'returned the original')
                continue
            verify(name, t3, None)

        # 5. usability of a reloaded copy: every op once
        if p2 is not None:
            for to_py in (False, True):
                uctx = ex.ctx if (ctx.impl == 'py') == to_py else ex.other_ctx
                for op in alphabet:
                    g['usable_ops'] += 1
                    try:
                        u = load_as(p2, to_py)
                        m = model.copy()
                        rs = O.apply_sut(uctx, u, op)
                        rm = O.apply_model(m, op)
                        if not O.same_outcome(op, rs, rm):
                            bad('use-after-load', 'result', 'op %r on a reloaded %s copy: %r, model %r'
                                % (op, 'py' if to_py else 'c', rs, rm), to_py=to_py)
                            continue
                        got = O.contents(uctx, u)
                        if got != m.contents():
                            bad('use-after-load', 'contents', 'op %r on a reloaded %s copy: contents '
                                '%r, model %r' % (op, 'py' if to_py else 'c', got, m.contents()),
                                to_py=to_py)
                            continue
                        if tree:
                            u._check()
                            probs = C.walk(C.dump(u, True), ctx.is_map, *ex.sizes)
                            if probs:
                                bad('use-after-load', 'walk', 'op %r: %s' % (op, probs), to_py=to_py)
                    except Exception as e:      # noqa
                        bad('use-after-load', 'exc-' + type(e).__name__, 'op %r: %r' % (op, e),
                            to_py=to_py)
    return mon


def job(fam, kind, impl, sizes, n, variant):
    ex = S.explorer(fam, kind, impl, sizes, n, variant, 'C06')
    ex.twin_ctx = O.Ctx(fam, kind, 'py')
    ex.other_ctx = O.Ctx(fam, kind, 'py' if impl == 'c' else 'c')
    ex.state_monitors.append(roundtrip_monitor(ex.alphabet))
    ex.run()
    n_eval = ex.guards.get('roundtrips', 0) + ex.guards.get('usable_ops', 0)
    return S.result(ex, extra_eval=n_eval)


def replay(case):
    """Re-run the whole monitor in the recorded state; report what it reports."""
    from ..explore import Explorer
    ctx, t, m = S.replay_state(case)
    keys, grid = F.universe(case['fam'], case['n'], case['variant'])
    alpha = S.slim_alphabet(ctx, keys, F.values(case['fam']))
    ex = Explorer(ctx, alpha, sizes=case.get('sizes'), prop='C06',
                  base_case=dict(n=case['n'], variant=case['variant']))
    ex.twin_ctx = O.Ctx(case['fam'], case['kind'], 'py')
    ex.other_ctx = O.Ctx(case['fam'], case['kind'], 'py' if case['impl'] == 'c' else 'c')
    hist = tuple(S._tup(o) for o in case['history'])
    roundtrip_monitor(alpha)(ex, hist, t, m, C.dump(t, ctx.is_tree))
    site = case.get('op', [None])[0]
    vs = [v for v in ex.violations if site is None or v['sig'].get('site') == site]
    return dict(violations=vs or ex.violations)
