"""C06 - serialized state round-trips, identically in C and Python.

E1 monitor over the shape spaces: in every reachable state __getstate__/__setstate__,
pickle protocols 0..5, copy.copy, copy.deepcopy, loading each implementation's pickle
with the other implementation's classes, byte comparison of the two implementations'
pickles for the same history, and a usability pass (every op of the alphabet applied to
a reloaded copy must agree with the reference model).
"""
import copy
import io
import pickle

from .. import fam as F
from .. import ops as O
from .. import space as S
from .. import canon as C

LEVEL = 'model_checking'
RULE = ('states = distinct canonical shapes reachable by insert/delete/pop-min/clear (BFS fixed '
        'point); in every state: setstate(getstate) on a fresh object, pickle round trip for '
        'protocols 0..5, copy.copy, copy.deepcopy, cross-implementation load (C pickle into Py '
        'classes and Py pickle into C classes), byte equality of C and Py pickles of the same '
        'history, and every alphabet op applied to a reloaded copy compared with the model; '
        'database interchange: BFS over committed transactions executed in a C and in a pure-Python '
        'MiniDB world in lock-step - after every commit the current records of both databases must '
        'be equal (state tuples with references normalised), each implementation must read the '
        'other\'s database, continue it with further commits and hand it back; int/float subclass '
        'instances (bool, int subclass, float subclass) as keys / values through every writing entry '
        'point must be stored and pickled as plain numbers, byte-identically in both; '
        'evaluations = round trips + usability ops; distinct_nontrivial = states')
TRUSTED = ['CPython 3.12 pickle/copy', 'persistent 6.8', 'vt harness (explorer, canonical dump, walk)']
ASSUMPTIONS = ['key universes of <= 6 keys, node sizes {2,3}', 'pickles are taken outside a database '
               '(children pickled inline); database records are covered by C04']

PROTOS = (0, 1, 2, 3, 4, 5)


def bounds(tier):
    return ('quick: cover families deep (trees N=5 @2/2 and @3/2, None/extreme universes N=4), other '
            'families N=4 (C) / N=3 (Py), leaf kinds N=4; database interchange (C and Python worlds in '
            'lock-step, records compared, cross-read, cross-write) N=4 @2/2 and 3/2 for all families; '
            'int/float subclass inputs through every entry point, all families; thorough: all 22 deep '
            'N=6 (C) / N=5 (Py), database interchange N=5')


def required_guards(tier):
    return ['height>=3', 'single_child_interior', 'roundtrips', 'usable_ops', 'byte_compared',
            'cross_loaded', 'embedded_form', 'empty_form', 'db_commits', 'db_records_compared',
            'db_cross_reads', 'db_cross_writes', 'subclass_cases', 'subclass_pickles_compared',
            'deep_pickles_compared', 'subclass_tree_roundtrips', 'subclass_tree_multibucket',
            'setstate_replacements']


def configs(tier):
    out = []
    deep = F.COVER if tier == 'quick' else F.FAMILIES
    for fam in F.FAMILIES:
        for impl in F.IMPLS:
            c = impl == 'c'
            for kind in F.TREE_KINDS:
                if fam in deep:
                    if tier == 'quick':
                        out.append((fam, kind, impl, (2, 2), 5 if c else 4, 'centred', 10 if c else 30))
                        if c:
                            out.append((fam, kind, impl, (3, 2), 5, 'centred', 3))
                        out.append((fam, kind, impl, (2, 2), 4, 'extreme', 2 if c else 20))
                        if fam[0] == 'O':
                            out.append((fam, kind, impl, (2, 2), 4, 'none', 2 if c else 20))
                    else:
                        out.append((fam, kind, impl, (2, 2), 6 if c else 5, 'centred', 100 if c else 300))
                        for sz in ((2, 3), (3, 2), (3, 3)):
                            out.append((fam, kind, impl, sz, 5, 'centred', 10 if c else 100))
                        out.append((fam, kind, impl, (2, 2), 5, 'extreme', 10 if c else 100))
                        if fam[0] == 'O':
                            out.append((fam, kind, impl, (2, 2), 5, 'none', 10 if c else 100))
                else:
                    out.append((fam, kind, impl, (2, 2), 4 if c else 3, 'centred', 2 if c else 5))
            for kind in ('Bucket', 'Set'):
                for var in F.variants(fam):
                    out.append((fam, kind, impl, None, 4, var, 1 if c else 3))
    return out


def jobs(tier):
    js = []
    for fam, kind, impl, sizes, n, var, w in configs(tier):
        js.append({'fn': 'job', 'weight': w,
                   'group': '%s/%s' % (impl, 'tree' if kind in F.TREE_KINDS else 'leaf'),
                   'args': dict(fam=fam, kind=kind, impl=impl, sizes=sizes, n=n, variant=var)})
    deep = F.COVER if tier == 'quick' else F.FAMILIES
    for fam in F.FAMILIES:
        for kind in F.KINDS:
            tree = kind in F.TREE_KINDS
            if fam in deep:
                nn = (4 if tier == 'quick' else 5) if tree else 4
            else:
                nn = 4 if tree else 3
            js.append({'fn': 'db_job', 'weight': 30 if fam in deep else 5, 'group': 'db/%s' % kind,
                       'args': dict(fam=fam, kind=kind, sizes=(2, 2) if tree else None, n=nn)})
            if tree and fam in deep:
                js.append({'fn': 'db_job', 'weight': 10, 'group': 'db/%s' % kind,
                           'args': dict(fam=fam, kind=kind, sizes=(3, 2), n=4 if tier == 'quick' else 5)})
        js.append({'fn': 'subclass_job', 'weight': 1, 'group': 'subclass', 'args': dict(fam=fam)})
        js.append({'fn': 'subtree_job', 'weight': 1, 'group': 'subclass-tree', 'args': dict(fam=fam)})
    for fam in (('II', 'OO') if tier == 'quick' else F.COVER):
        for kind in F.TREE_KINDS:
            for sz, n, order in ([((2, 3), 11, 'asc'), ((3, 2), 10, 'desc')] if tier == 'quick' else
                                 [((2, 3), 12, 'asc'), ((3, 2), 12, 'desc'), ((2, 4), 12, 'mid')]):
                js.append({'fn': 'deep_job', 'weight': 40, 'group': 'deep/' + kind,
                           'args': dict(fam=fam, kind=kind, sizes=sz, n=n, order=order)})
    return js


# --------------------------------------------------------------------------

class _CrossUnpickler(pickle.Unpickler):
    """Loads a pickle that names the C classes (BTrees.XXBTree.XXBTree) into the Py classes,
    or - to_py False - leaves the names alone (they resolve to the C classes)."""

    def __init__(self, f, to_py):
        super().__init__(f)
        self.to_py = to_py

    def find_class(self, module, name):
        if module.startswith('BTrees.') and self.to_py and not name.endswith('Py'):
            import importlib
            m = importlib.import_module(module)
            if hasattr(m, name + 'Py'):
                return getattr(m, name + 'Py')
        return super().find_class(module, name)


def load_as(data, to_py):
    return _CrossUnpickler(io.BytesIO(data), to_py).load()


def _impl_of(obj):
    return 'py' if type(obj).__name__.endswith('Py') else 'c'


def roundtrip_monitor(alphabet):
    def mon(ex, hist, t, model, c):
        ctx = ex.ctx
        g = ex.guards
        tree = ctx.is_tree
        want = model.contents()
        other_impl = 'py' if ctx.impl == 'c' else 'c'

        lone = C.has_lone_leaf_node(c) if tree else False
        if lone:
            g['lone_leaf_node_states'] += 1

        def bad(site, cls, detail, **kw):
            ex.report(dict(prop='C06', sig=ex.sig(site, cls, lone=lone, **kw),
                           case=ex.case(hist, (site,)), detail=detail))

        def verify(site, obj, expect_impl=None, shared=False):
            """obj must be an equal, sound container of the expected implementation."""
            g['roundtrips'] += 1
            try:
                if type(obj).__name__.replace('Py', '') != type(t).__name__.replace('Py', ''):
                    return bad(site, 'wrong-class', 'got %s from a %s' % (type(obj).__name__,
                                                                            type(t).__name__))
                if expect_impl and _impl_of(obj) != expect_impl:
                    return bad(site, 'wrong-impl', 'got %s, expected the %s implementation'
                               % (type(obj).__name__, expect_impl))
                c2 = C.dump(obj, tree)
                if c2 != c:
                    return bad(site, 'shape', 'canonical form %r, original %r' % (c2, c))
                got = O.contents(ctx, obj)
                if got != want:
                    return bad(site, 'contents', 'contents %r, expected %r' % (got, want))
                if len(obj) != len(want):
                    return bad(site, 'len', 'len %r, expected %r' % (len(obj), len(want)))
                if tree:
                    obj._check()
            except Exception as e:      # noqa
                return bad(site, 'exc-' + type(e).__name__, 'verifying the copy: %r' % (e,))
            return True

        if c[0] == 'E':
            g['empty_form'] += 1
        elif c[0] == 'I':
            g['embedded_form'] += 1

        # 1. __getstate__ / __setstate__
        try:
            st = t.__getstate__()
            t2 = ctx.new()
            t2.__setstate__(st)
            verify('setstate', t2, ctx.impl)
            # and the state is stable: getstate of the copy equals the state again
            if C.dump(t2, tree) == c and t2.__getstate__() != st and not tree:
                bad('setstate', 'state-unstable', '%r vs %r' % (t2.__getstate__(), st))
        except Exception as e:      # noqa
            bad('setstate', 'exc-' + type(e).__name__, repr(e))

        # 2. pickle protocols; 3. cross loading; byte identity
        twin = None
        if ctx.impl == 'c':
            tctx = ex.twin_ctx
            twin = tctx.new()
            for op in hist:
                O.fast_apply(tctx, twin, op)
        p2 = None
        for proto in PROTOS:
            try:
                data = pickle.dumps(t, proto)
            except Exception as e:      # noqa
                bad('pickle', 'exc-' + type(e).__name__, 'dumps proto %d: %r' % (proto, e), proto=proto)
                continue
            if proto == 2:
                p2 = data
            try:
                # the names in the stream are the C classes' names
                verify('pickle-load-c', load_as(data, False), 'c')
                verify('pickle-load-py', load_as(data, True), 'py')
                g['cross_loaded'] += 1
            except Exception as e:      # noqa
                bad('pickle', 'exc-' + type(e).__name__, 'loads proto %d: %r' % (proto, e), proto=proto)
            if twin is not None:
                g['byte_compared'] += 1
                try:
                    d2 = pickle.dumps(twin, proto)
                except Exception as e:      # noqa
                    bad('pickle-twin', 'exc-' + type(e).__name__, 'py dumps proto %d: %r' % (proto, e))
                    continue
                if d2 != data:
                    bad('pickle-bytes', 'differ', 'proto %d: C %r, Py %r' % (proto, data, d2), proto=proto)

        # 4. copy / deepcopy
        for name, fn in (('copy', copy.copy), ('deepcopy', copy.deepcopy)):
            try:
                t3 = fn(t)
            except Exception as e:      # noqa
                bad(name, 'exc-' + type(e).__name__, '%s(): %r' % (name, e),
                    multi=c[0] not in ('E', 'I', 'B'))
                continue
            if t3 is t:
                bad(name, 'same-object', 'returned the original')
                continue
            verify(name, t3, None)

        # 5. usability of a reloaded copy: every op once
        if p2 is not None:
            for to_py in (False, True):
                uctx = ex.ctx if (ctx.impl == 'py') == to_py else ex.other_ctx
                for op in alphabet:
                    g['usable_ops'] += 1
                    try:
                        u = load_as(p2, to_py)
                        m = model.copy()
                        rs = O.apply_sut(uctx, u, op)
                        rm = O.apply_model(m, op)
                        if not O.same_outcome(op, rs, rm):
                            bad('use-after-load', 'result', 'op %r on a reloaded %s copy: %r, model %r'
                                % (op, 'py' if to_py else 'c', rs, rm), to_py=to_py)
                            continue
                        got = O.contents(uctx, u)
                        if got != m.contents():
                            bad('use-after-load', 'contents', 'op %r on a reloaded %s copy: contents '
                                '%r, model %r' % (op, 'py' if to_py else 'c', got, m.contents()),
                                to_py=to_py)
                            continue
                        if tree:
                            u._check()
                            probs = C.walk(C.dump(u, True), ctx.is_map, *ex.sizes)
                            if probs:
                                bad('use-after-load', 'walk', 'op %r: %s' % (op, probs), to_py=to_py)
                    except Exception as e:      # noqa
                        bad('use-after-load', 'exc-' + type(e).__name__, 'op %r: %r' % (op, e),
                            to_py=to_py)
    return mon


def job(fam, kind, impl, sizes, n, variant):
    ex = S.explorer(fam, kind, impl, sizes, n, variant, 'C06')
    ex.twin_ctx = O.Ctx(fam, kind, 'py')
    ex.other_ctx = O.Ctx(fam, kind, 'py' if impl == 'c' else 'c')
    ex.state_monitors.append(roundtrip_monitor(ex.alphabet))
    ex.run()
    n_eval = ex.guards.get('roundtrips', 0) + ex.guards.get('usable_ops', 0)
    return S.result(ex, extra_eval=n_eval)


# --------------------------------------------------------------------------
# database interchange: the same history of committed transactions in a C and in a pure-Python
# world; records must be equal, each implementation must read and continue the other's database

def _norm_record(data):
    """State of a stored record with persistent references replaced by ('ref', oid, class name
    without the Py suffix)."""
    from .. import minidb as M

    def pl(ref):
        oid, cls = ref
        n = cls.__name__
        return ('ref', M.u64(oid), n[:-2] if n.endswith('Py') else n)
    return M._unpickle(data, pl)


def db_job(fam, kind, sizes, n):
    import collections
    from .. import minidb as M
    from ..report import Reporter
    from ..models import model_for
    from .c04 import World, layout, lone_inline
    cc = O.Ctx(fam, kind, 'c')
    cp = O.Ctx(fam, kind, 'py')
    keys, grid = F.universe(fam, n, 'centred')
    vals = F.values(fam)
    if sizes:
        F.set_sizes(fam, *sizes)
    tree = cc.is_tree
    alpha = S.slim_alphabet(cc, keys, vals)
    if cc.is_map:
        alpha.append(('update', 'pairs', tuple((k, vals[(i + 1) % 2]) for i, k in enumerate(keys))))
        extra = [('setitem', k, vals[(i + 1) % 2]) for i, k in enumerate(keys)]
    else:
        alpha.append(('update', 'list', tuple(keys)))
        extra = []
    rep = Reporter('C06')
    guards = collections.Counter()
    base = dict(db=True, fam=fam, kind=kind, sizes=sizes, n=n)

    def worlds(hist):
        wc, wp = World(cc), World(cp)
        for ops in hist:
            wc.commit(wc.run(ops))
            wp.commit(wp.run(ops))
        return wc, wp

    w0c, w0p = worlds(())
    k0 = (C.dump(w0c.t, tree), layout(w0c.t, tree))
    seen = {k0}
    frontier = collections.deque([()])
    states = 1
    transitions = compared = 0
    sample = None
    while frontier and not rep.full:
        hist = frontier.popleft()
        for op, expand in [(o, True) for o in alpha] + [(o, False) for o in extra]:
            if rep.full:
                break
            slot_case = ('C06db', fam, kind, sizes, hist, op)
            from .. import slot
            slot.set(slot_case)
            wc, wp = worlds(hist)
            mc = wc.run((op,))
            wp.run((op,))
            lone = lone_inline(wc.t, tree) or lone_inline(wp.t, tree)
            transitions += 1
            sig = dict(db=True, fam=fam, kind=kind, op=op[0], lone_inline=lone)
            case = dict(base, history=[list(x) for x in hist], op=op)
            try:
                sc = wc.commit(mc)
                sp = wp.commit(mc)
            except Exception as e:      # noqa
                rep.add(dict(sig, site='db-commit', cls='exc-' + type(e).__name__), case, repr(e))
                continue
            guards['db_commits'] += 1
            want = mc.contents()
            # 1. the two databases hold the same current records (an implementation may rewrite a
            #    record whose state did not change - e.g. Python marks a node changed when a value
            #    is replaced by an equal one, C does not - so the sets *written* are not compared)
            oc, op_ = sorted(wc.storage.data), sorted(wp.storage.data)
            if oc != op_:
                rep.add(dict(sig, site='db-records', cls='oids'), case,
                        'C database has records %r, Python %r' % ([M.u64(o) for o in oc],
                                                                  [M.u64(o) for o in op_]))
            else:
                for oid in set(sc) | set(sp):
                    rc = wc.storage.load(oid)
                    rp = wp.storage.load(oid)
                    nc, np_ = _norm_record(rc[2]), _norm_record(rp[2])
                    compared += 1
                    guards['db_records_compared'] += 1
                    if rc[1].__name__ + 'Py' != rp[1].__name__ or not C._same(nc, np_):
                        rep.add(dict(sig, site='db-records', cls='state'), case,
                                'record %d: C %s %r, Python %s %r' % (M.u64(oid), rc[1].__name__, nc,
                                                                      rp[1].__name__, np_))
                        break
            # 2. each reads the other's database, and 3. continues it
            for wname, w, to_py, rctx in (('c-written', wc, True, cp), ('py-written', wp, False, cc)):
                try:
                    conn, r = M.open_tree(w.storage, w.t._p_oid, clsmap=M.impl_map(to_py))
                    got = O.contents(rctx, r)
                    guards['db_cross_reads'] += 1
                    if got != want:
                        rep.add(dict(sig, site='db-cross-read', cls='contents', written=wname), case,
                                '%s database read by the other implementation: %r, expected %r'
                                % (wname, got, want))
                        continue
                    if tree:
                        r._check()
                    # continue the database with the reader's implementation
                    m2 = mc.copy()
                    more = ('setitem', grid[0], vals[0]) if rctx.is_map else ('add', grid[0])
                    more2 = (('delitem', want[0][0]) if rctx.is_map else ('remove', want[0])) if want else None
                    for o2 in (more, more2):
                        if o2 is None:
                            continue
                        O.apply_sut(rctx, r, o2)
                        O.apply_model(m2, o2)
                    conn.commit()
                    guards['db_cross_writes'] += 1
                    # ... and read it back with the writer's implementation
                    conn2, r2 = M.open_tree(w.storage, w.t._p_oid, clsmap=M.impl_map(not to_py))
                    back = O.contents(cc if to_py else cp, r2)
                    if back != m2.contents():
                        rep.add(dict(sig, site='db-cross-write', cls='contents', written=wname), case,
                                'after the other implementation continued the %s database: %r, expected %r'
                                % (wname, back, m2.contents()))
                    elif tree:
                        r2._check()
                except Exception as e:      # noqa
                    rep.add(dict(sig, site='db-cross', cls='exc-' + type(e).__name__, written=wname), case,
                            '%s database handled by the other implementation: %r' % (wname, e))
            if not expand:
                continue
            # BFS bookkeeping on the C world's committed shape (the writer objects, before step 3
            # touched the storages: wc.t is unaffected by other connections until it begins anew)
            try:
                nk = (C.dump(wc.t, tree), layout(wc.t, tree))
            except Exception as e:      # noqa
                continue
            if nk not in seen:
                seen.add(nk)
                states += 1
                frontier.append(hist + ((op,),))
                if sample is None and len(hist) >= 2:
                    sample = dict(base, history=[list(x) for x in hist + ((op,),)])
    return dict(states=states, transitions=transitions, compared=compared, evaluations=transitions,
                distinct=states, exhaustive=not rep.full, guards=dict(guards), outcomes={},
                violations=rep.all(), sample=sample)


# --------------------------------------------------------------------------
# int / float SUBCLASS instances (bool, IntEnum-like, float subclass) as keys and values: both
# implementations accept them; what is stored and pickled must be the plain number

class IntSub(int):
    pass


class FloatSub(float):
    pass


def subclass_job(fam):
    import collections
    from ..report import Reporter
    rep = Reporter('C06')
    guards = collections.Counter()
    kt, vt = fam[0], fam[1]
    evaluations = 0
    sample = None
    F.reset_sizes(fam)
    for kind in F.KINDS:
        ismap = F.is_map(kind)
        keyforms = [('plain', lambda k: k)]
        if kt in 'ILUQ':
            keyforms += [('bool', lambda k: bool(k) if k in (0, 1) else k), ('intsub', IntSub)]
        valforms = [('plain', lambda v: v)]
        if ismap and vt in 'ILUQ':
            valforms += [('bool', lambda v: bool(v) if v in (0, 1) else v), ('intsub', IntSub)]
        if ismap and vt == 'F':
            valforms += [('bool', lambda v: bool(v) if v in (0, 1) else v), ('intsub', lambda v: IntSub(int(v))),
                         ('floatsub', FloatSub)]
        if kt in 'ILUQ':
            ks = [0, 1, 5]
        elif kt == 'O':
            ks = [0, 1, 5]
        else:
            ks = [b'aa', b'ab', b'zz']
        if vt in 'ILUQ':
            vs = [1, 0, 7]
        elif vt == 'F':
            vs = [1.0, 0.0, 2.5]
        elif vt == 'O':
            vs = ['a', 'b', 'c']
        else:
            vs = [b'aaaaaa', b'bbbbbb', b'cccccc']
        for kname, kf in keyforms:
            for vname, vf in valforms:
                if kname == 'plain' and vname == 'plain':
                    continue
                for entry in (('setitem', 'update', 'ctor', 'setdefault') if ismap else ('add', 'update', 'ctor', 'ior')):
                    objs = {}
                    for impl in F.IMPLS:
                        cls = F.cls(fam, kind, impl)
                        try:
                            if ismap:
                                items = [(kf(k), vf(v)) for k, v in zip(ks, vs)]
                                if entry == 'ctor':
                                    t = cls(items)
                                else:
                                    t = cls()
                                    if entry == 'update':
                                        t.update(items)
                                    else:
                                        for k, v in items:
                                            if entry == 'setitem':
                                                t[k] = v
                                            else:
                                                t.setdefault(k, v)
                            else:
                                items = [kf(k) for k in ks]
                                if entry == 'ctor':
                                    t = cls(items)
                                else:
                                    t = cls()
                                    if entry == 'update':
                                        t.update(items)
                                    elif entry == 'ior':
                                        t |= items
                                    else:
                                        for k in items:
                                            t.add(k)
                            objs[impl] = t
                        except Exception as e:      # noqa
                            objs[impl] = e
                    evaluations += 1
                    guards['subclass_cases'] += 1
                    sig = dict(sub=True, fam=fam, kind=kind, keyform=kname, valform=vname, entry=entry)
                    case = dict(sub=True, fam=fam, kind=kind, keyform=kname, valform=vname, entry=entry)
                    if sample is None:
                        sample = case
                    tc, tp = objs['c'], objs['py']
                    if isinstance(tc, Exception) or isinstance(tp, Exception):
                        if type(tc) is not type(tp):
                            rep.add(dict(sig, site='subclass', cls='accept-differs'), case,
                                    'C: %r, Python: %r' % (tc, tp))
                        continue
                    for impl, t in objs.items():
                        flat = t.__getstate__()[0] if not F.is_tree(kind) else None
                        if F.is_tree(kind):
                            st = t.__getstate__()
                            flat = st[0][0][0] if st and len(st) == 1 else None
                        if flat is None:
                            continue
                        for j, x in enumerate(flat):
                            iskey = (j % 2 == 0) if ismap else True
                            tp_ = kt if iskey else vt
                            want = {'I': int, 'L': int, 'U': int, 'Q': int, 'F': float}.get(tp_)
                            if want is not None and type(x) is not want:
                                rep.add(dict(sig, site='subclass', cls='stored-type', impl=impl,
                                             role='key' if iskey else 'value'), case,
                                        '%s state holds %r (%s), expected a plain %s'
                                        % (impl, x, type(x).__name__, want.__name__))
                                break
                    for proto in (2, 5):
                        dc, dp = pickle.dumps(tc, proto), pickle.dumps(tp, proto)
                        guards['subclass_pickles_compared'] += 1
                        if dc != dp:
                            rep.add(dict(sig, site='subclass', cls='pickle-bytes'), case,
                                    'protocol %d: C %r, Python %r' % (proto, dc, dp))
                            break
    # __setstate__ REPLACES the whole state of a live leaf, including its successor link
    for kind in ('Bucket', 'Set'):
        ismap = F.is_map(kind)
        for impl in F.IMPLS:
            cls = F.cls(fam, kind, impl)
            flat1 = tuple(x for k, v in zip(ks, vs) for x in ((k, v) if ismap else (k,)))
            flat2 = flat1[:2] if ismap else flat1[:1]
            n1, n2 = cls(), cls()
            steps = [((flat1, n1), n1), ((flat2,), None), ((flat1, n2), n2), ((flat2, n1), n1),
                     (((),), None), ((flat1,), None)]
            b = cls()
            for i, (st, want_next) in enumerate(steps):
                evaluations += 1
                guards['setstate_replacements'] += 1
                sig = dict(sub=True, fam=fam, kind=kind, impl=impl, site='setstate-replace')
                case = dict(sub=True, fam=fam, kind=kind, keyform='replace', valform=str(i), entry=impl)
                try:
                    b.__setstate__(st)
                    got = b.__getstate__()
                    gnext = got[1] if len(got) > 1 else None
                    if gnext is not want_next or tuple(got[0]) != tuple(st[0]):
                        rep.add(dict(sig, cls='state-not-replaced'), case,
                                'step %d: __setstate__(%r) on a live %s left the state %r'
                                % (i, st, cls.__name__, got))
                        break
                except Exception as e:      # noqa
                    rep.add(dict(sig, cls='exc-' + type(e).__name__), case, 'step %d: %r' % (i, e))
                    break
    # ... and of a live TREE: a tree that holds data is given another state (what a data manager does
    # when it reloads an invalidated node; the slots of a ghost survive in the C Persistent base class):
    # multi-level -> other multi-level -> single embedded leaf -> None -> multi-level again
    F.set_sizes(fam, 2, 2)
    try:
        keys7, _grid = F.universe(fam, 7, 'centred')
        vals_ = F.values(fam)
        for kind in F.TREE_KINDS:
            ismap = F.is_map(kind)
            for impl in F.IMPLS:
                cls = F.cls(fam, kind, impl)

                def mk(ks_):
                    t_ = cls()
                    for i_, k_ in enumerate(ks_):
                        if ismap:
                            t_[k_] = vals_[i_ % 2]
                        else:
                            t_.add(k_)
                    return t_
                sources = [mk(keys7[:5]), mk(keys7[2:]), mk(keys7[:1]), None, mk(keys7[1:6]), mk(keys7[:2]),
                           mk(keys7)]
                t = mk(keys7[3:])
                for i, src in enumerate(sources):
                    evaluations += 1
                    guards['tree_setstate_replacements'] += 1
                    sig = dict(sub=True, fam=fam, kind=kind, impl=impl, site='setstate-replace-tree')
                    case = dict(sub=True, fam=fam, kind=kind, keyform='replace-tree', valform=str(i), entry=impl)
                    try:
                        t.__setstate__(None if src is None else src.__getstate__())
                        want = C.dump(src, True) if src is not None else ('E',)
                        got = C.dump(t, True)
                        probs = [] if got == want else ['state %r, loaded %r' % (got, want)]
                        if not probs:
                            t._check()
                            wantc = [] if src is None else (list(src.items()) if ismap else list(src.keys()))
                            gotc = list(t.items()) if ismap else list(t.keys())
                            if gotc != wantc:
                                probs.append('contents %r, loaded %r' % (gotc, wantc))
                        if probs:
                            rep.add(dict(sig, cls='state-not-replaced'), case,
                                    'step %d: __setstate__ on a live %s: %s' % (i, cls.__name__, probs[0]))
                            break
                    except Exception as e:      # noqa
                        rep.add(dict(sig, cls='exc-' + type(e).__name__), case, 'step %d: %r' % (i, e))
                        break
    finally:
        F.reset_sizes(fam)
    if fam == 'fs':
        # the C fsBucket's own compact serialisation: toBytes() / fromBytes() (and the deprecated aliases)
        cls = F.cls('fs', 'Bucket', 'c')
        keys9, _g = F.universe('fs', 9, 'centred')
        v0, v1 = F.values('fs')
        for nk in range(0, 10):
            for live in (0, 3, 9):
                src = cls()
                for i, k in enumerate(keys9[:nk]):
                    src[k] = (v0, v1)[i % 2]
                evaluations += 1
                guards['fs_bytes_roundtrips'] += 1
                sig = dict(sub=True, fam=fam, kind='Bucket', impl='c', site='toBytes')
                case = dict(sub=True, fam=fam, kind='Bucket', keyform='toBytes', valform='%d/%d' % (nk, live), entry='c')
                try:
                    data = src.toBytes()
                    want = b''.join(keys9[:nk]) + b''.join((v0, v1)[i % 2] for i in range(nk))
                    dst = cls()
                    nxt = cls()
                    for i, k in enumerate(reversed(keys9[:live])):
                        dst[k] = v1
                    if live:
                        dst.__setstate__((dst.__getstate__()[0], nxt))
                    r = dst.fromBytes(data) if nk % 2 else dst.fromString(data)
                    got = (data, list(dst.items()), r is dst, dst.__getstate__()[1:] in ((), (None,)), src.toString())
                    exp = (want, list(src.items()), True, True, want)
                    if got != exp:
                        rep.add(dict(sig, cls='bytes-roundtrip'), case,
                                'toBytes/fromBytes of %d items onto a bucket of %d: %r, expected %r' % (nk, live, got, exp))
                    dst[keys9[0]] = v0          # usable afterwards
                    dst._p_changed
                except Exception as e:      # noqa
                    rep.add(dict(sig, cls='exc-' + type(e).__name__), case, '%d/%d: %r' % (nk, live, e))
    return dict(states=evaluations, transitions=evaluations, compared=evaluations,
                evaluations=evaluations, distinct=evaluations, exhaustive=not rep.full,
                guards=dict(guards), outcomes={}, violations=rep.all(), sample=sample)


# --------------------------------------------------------------------------
# application subclasses with their own bucket type (BTree._bucket_type): the state of such a tree
# holds instances of the bucket subclass and must round-trip like any other

_SUBCLASSES = {}


def _subclasses(fam, kind, impl):
    """Module-level (picklable by reference) subclasses of a family's tree and leaf classes."""
    key = (fam, kind, impl)
    if key not in _SUBCLASSES:
        tree_cls = F.cls(fam, kind, impl)
        leaf_cls = F.cls(fam, F.leaf_kind_of(kind), impl)
        lname = 'Sub%s%s%s' % (fam, F.leaf_kind_of(kind), impl)
        tname = 'Sub%s%s%s' % (fam, kind, impl)
        leaf = type(lname, (leaf_cls,), {'__module__': __name__})
        tree = type(tname, (tree_cls,), {'__module__': __name__, '_bucket_type': leaf,
                                         'max_leaf_size': 2, 'max_internal_size': 3})   # 2/2 would produce the shapes of finding F12
        globals()[lname] = leaf
        globals()[tname] = tree
        _SUBCLASSES[key] = (tree, leaf)
    return _SUBCLASSES[key]


def subtree_job(fam):
    import collections
    from ..report import Reporter
    rep = Reporter('C06')
    guards = collections.Counter()
    evaluations = 0
    sample = None
    keys, grid = F.universe(fam, 9, 'centred')
    vals = F.values(fam)
    for kind in F.TREE_KINDS:
        for impl in F.IMPLS:
            tree_cls, leaf_cls = _subclasses(fam, kind, impl)
            ismap = F.is_map(kind)
            for nkeys in range(0, len(keys) + 1):
                t = tree_cls()
                for i, k in enumerate(keys[:nkeys]):
                    if ismap:
                        t[k] = vals[i % 2]
                    else:
                        t.add(k)
                want = list(t.items()) if ismap else list(t.keys())
                fb = getattr(t, '_firstbucket', None)
                if fb is not None and type(fb) is not leaf_cls:
                    raise RuntimeError('harness: the subclass does not use its bucket type')
                trips = [('setstate', lambda: _restate(tree_cls, t)), ('copy', lambda: copy.copy(t)),
                         ('deepcopy', lambda: copy.deepcopy(t))]
                trips += [('pickle-%d' % p_, (lambda p_=p_: pickle.loads(pickle.dumps(t, p_)))) for p_ in PROTOS]
                for tname, fn in trips:
                    evaluations += 1
                    guards['subclass_tree_roundtrips'] += 1
                    sig = dict(subtree=True, fam=fam, kind=kind, impl=impl, site=tname)
                    case = dict(subtree=True, fam=fam, kind=kind, impl=impl, nkeys=nkeys, trip=tname)
                    if sample is None and nkeys >= 3:
                        sample = case
                    try:
                        c2 = fn()
                        got = list(c2.items()) if ismap else list(c2.keys())
                        if got != want:
                            rep.add(dict(sig, cls='contents'), case, '%r, expected %r' % (got, want))
                            continue
                        if type(c2) is not tree_cls:
                            rep.add(dict(sig, cls='wrong-class'), case, 'got a %s' % type(c2).__name__)
                            continue
                        fb2 = c2._firstbucket
                        if fb2 is not None and type(fb2) is not leaf_cls:
                            rep.add(dict(sig, cls='wrong-leaf-class'), case,
                                    'leaves of the copy are %s' % type(fb2).__name__)
                            continue
                        c2._check()
                        if nkeys >= 3:
                            guards['subclass_tree_multibucket'] += 1
                    except Exception as e:      # noqa
                        rep.add(dict(sig, cls='exc-' + type(e).__name__), case,
                                '%s of a %s with %d keys (its own bucket subclass): %r'
                                % (tname, tree_cls.__name__, nkeys, e))
    return dict(states=evaluations, transitions=evaluations, compared=evaluations, evaluations=evaluations,
                distinct=evaluations, exhaustive=not rep.full, guards=dict(guards), outcomes={},
                violations=rep.all(), sample=sample)


def _restate(cls, t):
    n = cls()
    n.__setstate__(t.__getstate__())
    return n


def deep_job(fam, kind, sizes, n, order):
    """Byte identity of C and Python pickles (and equal state shape) along a scripted growth of n
    keys and over its complete thinning space at asymmetric node sizes - the lock-step walk of
    vt.props.c09.deep_job, judged for this property."""
    from . import c09
    r = c09.deep_job(fam, kind, sizes, n, order)
    out = []
    for v in r['violations']:
        v = dict(v)
        v['prop'] = 'C06'
        v['sig'] = dict(v['sig'], deep=True)
        v['case'] = dict(v['case'], deep06=True)
        out.append(v)
    r['violations'] = out
    g = dict(r.get('guards', {}))
    g['deep_pickles_compared'] = g.pop('pickles_compared', 0)
    g.pop('height>=3', None)
    r['guards'] = g
    return r


def replay(case):
    """Re-run the whole monitor in the recorded state; report what it reports."""
    from ..explore import Explorer
    if case.get('deep06'):
        r = deep_job(case['fam'], case['kind'], tuple(case['sizes']), case['n'], case['order'])
        vs = [v for v in r['violations'] if v['case'].get('history') == case.get('history')]
        return dict(violations=vs)
    if case.get('subtree'):
        r = subtree_job(case['fam'])
        vs = [v for v in r['violations'] if all(v['case'].get(k) == case.get(k)
                                                for k in ('kind', 'impl', 'nkeys', 'trip'))]
        return dict(violations=vs)
    if case.get('db'):
        r = db_job(case['fam'], case['kind'], case.get('sizes') and tuple(case['sizes']), case['n'])
        vs = [v for v in r['violations'] if v['case'].get('history') == case.get('history')
              and list(v['case'].get('op')) == list(case.get('op'))]
        return dict(violations=vs)
    if case.get('sub'):
        r = subclass_job(case['fam'])
        vs = [v for v in r['violations'] if all(v['case'].get(k) == case.get(k)
                                                for k in ('kind', 'keyform', 'valform', 'entry'))]
        return dict(violations=vs)
    ctx, t, m = S.replay_state(case)
    keys, grid = F.universe(case['fam'], case['n'], case['variant'])
    alpha = S.slim_alphabet(ctx, keys, F.values(case['fam']))
    ex = Explorer(ctx, alpha, sizes=case.get('sizes'), prop='C06',
                  base_case=dict(n=case['n'], variant=case['variant']))
    ex.twin_ctx = O.Ctx(case['fam'], case['kind'], 'py')
    ex.other_ctx = O.Ctx(case['fam'], case['kind'], 'py' if case['impl'] == 'c' else 'c')
    hist = tuple(S._tup(o) for o in case['history'])
    roundtrip_monitor(alpha)(ex, hist, t, m, C.dump(t, ctx.is_tree))
    site = case.get('op', [None])[0]
    vs = [v for v in ex.violations if site is None or v['sig'].get('site') == site]
    return dict(violations=vs or ex.violations)
