"""C18 - the diagnostic checkers accept every valid tree and detect every corruption.

E1 + E5: (accept) in every state of the shape spaces check() and _check() succeed;
(reject) for every state, every single application of every corruption operator at every
position, installed through __setstate__ on fresh nodes: if the independent walk says the
mutant breaks one of the listed invariants, check() or _check() must raise AssertionError.
"""
from .. import fam as F
from .. import ops as O
from .. import space as S
from .. import canon as C
from .. import slot

LEVEL = 'exploration'
RULE = ('for every distinct reachable shape (BFS fixed point over insert/delete/pop-min/clear): the '
        'pristine tree must be accepted by check() and _check(); then every single application of '
        'every corruption operator (swap / duplicate / shift a key, separator out of range, drop or '
        'redirect a next pointer, empty a leaf or an interior node, wrong firstbucket, mixed child '
        'kinds) at every position is materialised through __setstate__ on fresh nodes; mutants that '
        'the independent walk still finds valid are counted and skipped, every other one must be '
        'rejected with AssertionError by check() or _check(); evaluations = mutants judged + '
        'pristine acceptances; distinct_nontrivial = distinct corrupt mutants (canonical forms)')
TRUSTED = ['CPython 3.12', 'persistent 6.8', 'vt harness (explorer, canonical dump, independent walk)']
ASSUMPTIONS = ['key universes of <= 6 keys, node sizes 2/2 and 2/3, 3/2',
               'a mutant counts as corrupt iff the independent walk (written from the B+-tree '
               'definition, not from check.py) reports a problem']


def bounds(tier):
    return ('quick: cover families N=5 @2/2 (C and Py), N=5 @2/3 and 3/2 (C), other families N=4; '
            'plus thinning spaces of 8 keys; stored trees (II OO fs, N=5 @2/2) accepted with every single node / all nodes '
            'turned into ghosts first; thorough: all families N=6, thinning 10')


def required_guards(tier):
    return ['height>=3', 'accepted', 'stored_accept', 'mutants_corrupt', 'op:swap', 'op:dup',
            'op:key_low', 'op:key_high', 'op:sep_low', 'op:sep_high', 'op:next_drop', 'op:next_skip',
            'op:next_self', 'op:next_back', 'op:leaf_empty', 'op:node_empty', 'op:firstbucket',
            'op:mixed_kinds']


def configs(tier):
    out = []
    deep = F.COVER if tier == 'quick' else F.FAMILIES
    for fam in F.FAMILIES:
        for impl in F.IMPLS:
            c = impl == 'c'
            for kind in F.TREE_KINDS:
                if fam in deep:
                    if tier == 'quick':
                        out.append((fam, kind, impl, (2, 2), 5, 'centred', None, 10 if c else 40))
                        if c:
                            out.append((fam, kind, impl, (2, 3), 5, 'centred', None, 3))
                            out.append((fam, kind, impl, (3, 2), 5, 'centred', None, 3))
                        out.append((fam, kind, impl, (2, 2), 8, 'centred', 'asc', 5 if c else 20))
                        if fam[0] == 'O':
                            out.append((fam, kind, impl, (2, 2), 4, 'none', None, 2))
                    else:
                        out.append((fam, kind, impl, (2, 2), 6, 'centred', None, 100 if c else 400))
                        for sz in ((2, 3), (3, 2), (3, 3)):
                            out.append((fam, kind, impl, sz, 6, 'centred', None, 30 if c else 100))
                        for order in ('asc', 'desc'):
                            out.append((fam, kind, impl, (2, 2), 10, 'centred', order, 30 if c else 100))
                        if fam[0] == 'O':
                            out.append((fam, kind, impl, (2, 2), 5, 'none', None, 10))
                else:
                    out.append((fam, kind, impl, (2, 2), 4, 'centred', None, 1 if c else 3))
    return out


def jobs(tier):
    js = [{'fn': 'job', 'weight': w, 'group': '%s/%s' % (impl, kind),
           'args': dict(fam=fam, kind=kind, impl=impl, sizes=sizes, n=n, variant=var, thin=thin)}
          for fam, kind, impl, sizes, n, var, thin, w in configs(tier)]
    # stored trees with ghost nodes at the moment the checkers run
    for fam in (('II', 'OO', 'fs') if tier == 'quick' else F.COVER):
        for impl in F.IMPLS:
            for kind in F.TREE_KINDS:
                js.append({'fn': 'jar_job', 'weight': 10 if impl == 'c' else 30, 'group': '%s/jar' % impl,
                           'args': dict(fam=fam, kind=kind, impl=impl, sizes=(2, 2),
                                        n=5 if tier == 'quick' else 6)})
    return js


# --------------------------------------------------------------------------
# materialising a canonical form through __setstate__

def materialize(ctx, c):
    tree_cls = ctx.cls
    leaf_cls = F.cls(ctx.fam, F.leaf_kind_of(ctx.kind), ctx.impl)
    if c[0] == 'E':
        return tree_cls()
    if c[0] == 'I':
        t = tree_cls()
        t.__setstate__((((c[1],),),))
        return t
    root, leaves = c
    objs = [leaf_cls() for _ in leaves]
    for i, (flat, nxt) in enumerate(leaves):
        objs[i].__setstate__((flat,) if nxt is None else (flat, objs[nxt]))

    def node(n):
        if n[0] == 'L':
            return objs[n[1]]
        t = tree_cls()
        if n[0] == 'E':
            return t
        items = tuple(node(x) if j % 2 == 0 else x for j, x in enumerate(n[1]))
        fb = objs[n[2]] if n[2] is not None else None
        t.__setstate__((items, fb) if fb is not None else (items,))
        return t
    return node(root)


# --------------------------------------------------------------------------
# corruption operators over canonical forms; each yields (opname, position, mutant)

def _set_leaf(c, i, flat=None, nxt='keep'):
    root, leaves = c
    L = list(leaves)
    f, n = L[i]
    L[i] = (f if flat is None else flat, n if nxt == 'keep' else nxt)
    return (root, tuple(L))


def _map_nodes(root, fn):
    """Rebuild the node tree applying fn(path, node) -> replacement | None at every T node."""
    def rec(n, path):
        if n[0] != 'T':
            return n
        r = fn(path, n)
        if r is not None:
            return r
        kids = tuple(rec(x, path + (j // 2,)) if j % 2 == 0 else x for j, x in enumerate(n[1]))
        return ('T', kids, n[2])
    return rec(root, ())


def _nodes(root):
    out = []

    def rec(n, path):
        if n[0] == 'T':
            out.append((path, n))
            for j, x in enumerate(n[1][::2]):
                rec(x, path + (j,))
    rec(root, ())
    return out


def _replace_node(root, path, new):
    return _map_nodes(root, lambda p, n: new if p == path else None)


def corruptions(c, is_map, grid):
    if c[0] in ('E', 'I', 'B'):
        return
    root, leaves = c
    step = 2 if is_map else 1
    lo_all, hi_all = grid[0], grid[-1]
    for i, (flat, nxt) in enumerate(leaves):
        nk = len(flat) // step
        keys = flat[::step]
        # 1. swap adjacent keys (values stay)
        for j in range(nk - 1):
            f = list(flat)
            f[j * step], f[(j + 1) * step] = f[(j + 1) * step], f[j * step]
            yield 'swap', (i, j), _set_leaf(c, i, tuple(f))
        # 2. duplicate a key
        for j in range(nk - 1):
            f = list(flat)
            f[(j + 1) * step] = f[j * step]
            yield 'dup', (i, j), _set_leaf(c, i, tuple(f))
        # 3. shift the first key down to / below the previous leaf's range, the last key up
        if nk:
            prev_keys = [k for (fl, _) in leaves for k in fl[::step] if F.skey(k) < F.skey(keys[0])]
            if prev_keys:
                for target in (max(prev_keys, key=F.skey), min(prev_keys, key=F.skey)):
                    f = list(flat)
                    f[0] = target
                    yield 'key_low', (i, target), _set_leaf(c, i, tuple(f))
            next_keys = [k for (fl, _) in leaves for k in fl[::step] if F.skey(k) > F.skey(keys[-1])]
            if next_keys:
                for target in (min(next_keys, key=F.skey), max(next_keys, key=F.skey)):
                    f = list(flat)
                    f[(nk - 1) * step] = target
                    yield 'key_high', (i, target), _set_leaf(c, i, tuple(f))
        # 5. next pointer: drop, skip one, self, backwards
        if nxt is not None:
            yield 'next_drop', (i,), _set_leaf(c, i, nxt=None)
            if leaves[nxt][1] is not None:
                yield 'next_skip', (i,), _set_leaf(c, i, nxt=leaves[nxt][1])
        yield 'next_self', (i,), _set_leaf(c, i, nxt=i)
        for b in range(len(leaves)):
            if b != i and b != nxt and leaves[b][1] == i:
                yield 'next_back', (i, b), _set_leaf(c, i, nxt=b)
        # 6. empty a leaf
        if nk:
            yield 'leaf_empty', (i,), _set_leaf(c, i, ())
    for path, n in _nodes(root):
        kids = n[1]
        nch = (len(kids) + 1) // 2
        # 4. separators out of range
        for s in range(1, len(kids), 2):
            left, right = kids[s - 1], kids[s + 1]
            lmax = _subtree_keys(left, leaves, step)
            rmin = _subtree_keys(right, leaves, step)
            if lmax:
                for target in (max(lmax, key=F.skey), min(lmax, key=F.skey)):
                    new = ('T', kids[:s] + (target,) + kids[s + 1:], n[2])
                    yield 'sep_low', (path, s, target), (_replace_node(root, path, new), leaves)
            if rmin:
                hi = [k for k in rmin if F.skey(k) > F.skey(min(rmin, key=F.skey))]
                cands = [max(rmin, key=F.skey)] + ([min(hi, key=F.skey)] if hi else [])
                nxtall = [k for (fl, _) in leaves for k in fl[::step]
                          if F.skey(k) > F.skey(max(rmin, key=F.skey))]
                if nxtall:
                    cands.append(min(nxtall, key=F.skey))
                for target in cands:
                    if F.skey(target) == F.skey(kids[s]):
                        continue
                    new = ('T', kids[:s] + (target,) + kids[s + 1:], n[2])
                    yield 'sep_high', (path, s, target), (_replace_node(root, path, new), leaves)
        # 6b. empty an interior node (non-root)
        if path:
            yield 'node_empty', (path,), (_replace_node(root, path, ('E',)), leaves)
        # 7. wrong firstbucket
        for b in range(len(leaves)):
            if b != n[2]:
                yield 'firstbucket', (path, b), (_replace_node(root, path, ('T', kids, b)), leaves)
        # 8. mixed child kinds
        if nch >= 2:
            for j in range(0, len(kids), 2):
                ch = kids[j]
                if ch[0] == 'L':
                    wrapped = ('T', (ch,), ch[1])
                    new = ('T', kids[:j] + (wrapped,) + kids[j + 1:], n[2])
                    yield 'mixed_kinds', (path, j, 'wrap'), (_replace_node(root, path, new), leaves)
                elif ch[0] == 'T' and ch[2] is not None and len(ch[1]) == 1 and ch[1][0][0] == 'L':
                    new = ('T', kids[:j] + (ch[1][0],) + kids[j + 1:], n[2])
                    yield 'mixed_kinds', (path, j, 'unwrap'), (_replace_node(root, path, new), leaves)


def _subtree_keys(n, leaves, step):
    if n[0] == 'L':
        return list(leaves[n[1]][0][::step])
    if n[0] == 'T':
        out = []
        for x in n[1][::2]:
            out.extend(_subtree_keys(x, leaves, step))
        return out
    return []


# --------------------------------------------------------------------------

def judge(ctx, t):
    """-> ('rejected', which) | ('accepted',) | ('other', description)"""
    from BTrees.check import check as bcheck
    res = []
    for name, f in (('_check', t._check), ('check', lambda: bcheck(t))):
        try:
            f()
            res.append((name, 'ok'))
        except AssertionError:
            return ('rejected', name)
        except Exception as e:      # noqa
            res.append((name, type(e).__name__))
    if all(r == 'ok' for _, r in res):
        return ('accepted',)
    return ('other', ','.join('%s:%s' % r for r in res))


def checker_monitor():
    seen_mutants = set()

    def mon(ex, hist, t, model, c):
        ctx = ex.ctx
        g = ex.guards
        # accept side: the pristine object and its re-materialised twin
        for label, obj in (('live', t), ('rebuilt', None)):
            try:
                if obj is None:
                    obj = materialize(ctx, c)
                    if C.dump(obj, True) != c:
                        raise RuntimeError('materialize() does not reproduce the canonical form')
                j = judge(ctx, obj)
            except RuntimeError:
                raise
            except Exception as e:      # noqa
                j = ('other', 'materialize: %r' % (e,))
            g['accepted'] += 1
            if j != ('accepted',):
                ex.report(dict(prop='C18', sig=ex.sig('accept', j[0], which=j[-1], obj=label),
                               case=ex.case(hist, ('accept', label)),
                               detail='valid tree %s by the checkers: %r; canonical %r' % (j[0], j, c)))
        # reject side
        for name, pos, m in corruptions(c, ctx.is_map, ex.grid):
            slot.set(('C18', ctx.fam, ctx.kind, ctx.impl, ex.sizes, hist, name, pos))
            probs = C.walk(m, ctx.is_map)
            if not probs:
                g['mutants_still_valid'] += 1
                continue
            g['op:' + name] += 1
            g['evaluated'] += 1
            if m not in seen_mutants:
                seen_mutants.add(m)
                g['mutants_corrupt'] += 1
            try:
                obj = materialize(ctx, m)
            except Exception as e:      # noqa - the state cannot even be installed
                g['refused_by_setstate'] += 1
                continue
            j = judge(ctx, obj)
            if j[0] == 'rejected':
                g['rejected_by_' + j[1]] += 1
                continue
            ex.report(dict(prop='C18',
                           sig=ex.sig(name, 'not-rejected' if j[0] == 'accepted' else 'other',
                                      which=j[-1] if j[0] != 'accepted' else '',
                                      none_target=(name.startswith(('sep_', 'key_'))
                                                   and pos[-1] is None),
                                      problem=probs[0].split(' ')[0] + ' ' + ' '.join(
                                          w for w in probs[0].split(' ')[1:4] if not w.isdigit())),
                           case=ex.case(hist, ('corrupt', name, pos)),
                           detail='corruption %s at %r -> %r; walk: %s; mutant %r'
                                  % (name, pos, j, '; '.join(probs[:3]), m)))
    return mon


def job(fam, kind, impl, sizes, n, variant, thin=None):
    ex = S.explorer(fam, kind, impl, sizes, n, variant, 'C18', thin=thin)
    ex.state_monitors.append(checker_monitor())
    ex.run()
    g = ex.guards
    res = S.result(ex, extra_eval=g.get('evaluated', 0) + g.get('accepted', 0))
    res['distinct'] = g.get('mutants_corrupt', 0)
    return res


def jar_job(fam, kind, impl, sizes, n):
    """Accept side for STORED trees: every state of the space is committed step by step through
    vt.minidb, opened in a fresh connection and checked with every single node, and with all nodes,
    turned into a ghost first - the checkers have to load what they look at (a ghost has no children,
    no keys and no `next`), so a sound tree must still be accepted."""
    from .. import minidb as M
    from ..report import Reporter
    import collections
    ctx = O.Ctx(fam, kind, impl)
    ex = S.explorer(fam, kind, impl, sizes, n, 'centred', 'C18')
    states = []
    ex.state_monitors.append(lambda e, hist, t, model, c: states.append((hist, model.copy())))
    ex.run()
    rep = Reporter('C18')
    guards = collections.Counter(ex.guards)
    evaluations = 0
    sample = None
    base = dict(fam=fam, kind=kind, impl=impl, sizes=sizes, n=n, variant='centred', jar=True)
    for hist, model in states:
        if rep.full:
            break
        st = M.Storage()
        c0 = M.Connection(st)
        t0 = ctx.new()
        c0.add(t0)
        c0.commit()
        for op in hist:
            O.fast_apply(ctx, t0, op)
            c0.commit()
        conn, t = M.open_tree(st, t0._p_oid)
        try:
            ok = O.contents(ctx, t) == model.contents() and not C.walk(C.dump(t, True), ctx.is_map)
        except Exception:       # noqa
            ok = False
        if not ok:
            guards['bases_skipped_damaged(C04:F12b)'] += 1
            continue
        nodes = sorted(conn.objects(), key=lambda o: o._p_oid)
        for choice in ['all'] + list(range(len(nodes))):
            slot_case = dict(base, history=[list(o) for o in hist], op=['accept-stored', choice])
            conn.sweep()
            O.contents(ctx, t)          # everything loaded again
            C.dump(t, True)
            if choice == 'all':
                conn.sweep()
            else:
                nodes[choice]._p_deactivate()
                if nodes[choice]._p_state != -1:
                    continue            # the root while in use etc.
            guards['stored_accept'] += 1
            evaluations += 1
            j = judge(ctx, t)
            if j != ('accepted',):
                rep.add(dict(fam=fam, kind=kind, impl=impl, site='accept-stored', cls=j[0],
                             ghost='all' if choice == 'all' else 'one'), slot_case,
                        'sound stored tree with %s turned into a ghost: %r'
                        % ('every node' if choice == 'all' else 'node %d (%s)' % (choice, type(nodes[choice]).__name__), j))
            if sample is None and len(nodes) >= 5 and choice == 2:
                sample = slot_case
    return dict(states=len(states), transitions=evaluations, compared=evaluations, evaluations=evaluations,
                distinct=evaluations, exhaustive=not rep.full, guards=dict(guards), outcomes={},
                violations=rep.all(), sample=sample)


def replay(case):
    if case.get('jar'):
        r = jar_job(case['fam'], case['kind'], case['impl'], tuple(case['sizes']), case['n'])
        import json
        from ..runner import _jsonable
        norm = lambda x: json.dumps(_jsonable(x), sort_keys=True, default=repr)
        return dict(violations=[v for v in r['violations'] if all(
            norm(v['case'].get(k)) == norm(case.get(k)) for k in ('history', 'op'))])
    ctx, t, m = S.replay_state(case)
    keys, grid = F.universe(case['fam'], case['n'], case['variant'])
    c = C.dump(t, True)
    op = S._tup(case['op'])
    out = []
    if op[0] == 'accept':
        obj = t if op[1] == 'live' else materialize(ctx, c)
        j = judge(ctx, obj)
        if j != ('accepted',):
            out.append(dict(prop='C18', sig=dict(site='accept', cls=j[0]), case=case,
                            detail='valid tree: %r' % (j,)))
        return dict(violations=out)
    _, name, pos = op
    for nm, ps, mut in corruptions(c, ctx.is_map, grid):
        if nm == name and S._tup(ps) == S._tup(pos):
            probs = C.walk(mut, ctx.is_map)
            if not probs:
                continue
            try:
                obj = materialize(ctx, mut)
            except Exception:       # noqa
                continue
            j = judge(ctx, obj)
            if j[0] != 'rejected':
                out.append(dict(prop='C18', sig=dict(site=name, cls='not-rejected'), case=case,
                                detail='corruption %s at %r -> %r; walk: %s' % (name, pos, j, probs[:3])))
    return dict(violations=out)
