"""C11 - multiunion is the exact sorted union for every integer-key family.

E5: (a) small: every sequence of up to 2 operands (and a reduced alphabet for 3) of every
kind over the 5-point universe {min, low, middle, high, max} of the key type; (b) the sort:
a deterministic catalogue of key sequences built from byte alphabets and arithmetic
progressions, for every total size around the quicksort/radix-sort switch, in ascending,
descending, interleaved and duplicated orders, split over 1, 2 or many operands.
"""
import collections
import itertools

from .. import fam as F
from .. import slot
from ..report import Reporter

LEVEL = 'exploration'
RULE = ('(a) every operand list of length <= 2 whose operands are an int, or a Set / TreeSet / Bucket '
        '/ BTree / list / generator over any subset of the 5-point universe (both extremes of the key '
        'type, two interior keys and the middle), and length-3 lists over a reduced subset alphabet; '
        '(b) for every total input size in {799, 800, 801, 802, 1024, 4096} every sequence of a '
        'catalogue (arithmetic progressions with steps 1, 7, 257, 65537, 2^24+1 anchored at the low '
        'end, the high end, around zero, around the top-bit boundary; byte-alphabet products '
        '{00,7f,80,ff}^4 embedded at different byte positions) in ascending, descending, stride-'
        'interleaved and with-duplicates order, as 1, 2 and many operands; result compared with '
        'sorted(set(inputs)), must be the family Set, membership and range queries probed; '
        'evaluations = multiunion calls; distinct_nontrivial = distinct calls with >= 2 distinct keys')
TRUSTED = ['CPython 3.12', 'persistent 6.8', 'vt harness']
ASSUMPTIONS = ['keys drawn from the catalogue only; sizes up to 4096 elements (quick), 20000 (thorough)']

SIZES_QUICK = (799, 800, 801, 802, 1024, 4096)


def bounds(tier):
    return ('quick: 16 integer-key families x 2 implementations; small part complete for <= 2 operands; '
            'catalogue sizes %r; thorough: adds sizes 803, 2048, 20000 and 3-operand lists over all subsets'
            % (SIZES_QUICK,))


def required_guards(tier):
    return ['small', 'catalogue', 'radix_path(>800)', 'quick_path(<=800)', 'top_bit_keys',
            'both_extremes', 'no_duplicates_large', 'duplicates_large', 'membership_probes']


def jobs(tier):
    js = []
    for fam in F.FAMILIES:
        if not F.has_multiunion(fam):
            continue
        for impl in F.IMPLS:
            js.append({'fn': 'small_job', 'weight': 5 if impl == 'c' else 15, 'group': impl + '/small',
                       'args': dict(fam=fam, impl=impl, tier=tier)})
            js.append({'fn': 'catalogue_job', 'weight': 10 if impl == 'c' else 40,
                       'group': impl + '/catalogue', 'args': dict(fam=fam, impl=impl, tier=tier)})
    return js


def five_points(fam):
    lo, hi = F.INT_RANGE[fam[0]]
    mid = (lo + hi + 1) // 2
    return [lo, mid - 3, mid, mid + 5, hi]


def verify(rep, guards, fam, impl, fn, operands_factory, expect_keys, case, probes=()):
    """Call multiunion on fresh operands and compare."""
    setname = fam + 'Set'
    def snap(o):
        if isinstance(o, int) or (hasattr(o, '__next__')):
            return None
        return list(o.keys()) if hasattr(o, 'keys') else list(o)
    try:
        ops = operands_factory()
        before = [snap(o) for o in ops]
        r = fn(ops)
    except Exception as e:      # noqa
        rep.add(dict(site='multiunion', cls='exc-' + type(e).__name__, impl=impl, fam=fam,
                     part=case['part']), case, 'raised %r' % (e,))
        return
    want = sorted(set(expect_keys))
    tn = type(r).__name__
    if tn.endswith('Py'):
        tn = tn[:-2]
    got = list(r)
    if got != want:
        cls = 'keys'
        if sorted(got) == want:
            cls = 'unsorted'
        elif sorted(set(got)) == want:
            cls = 'duplicates'
        lo, hi = F.INT_RANGE[fam[0]]
        top = lo == 0 and any(k > hi // 2 for k in want) and any(k <= hi // 2 for k in want)
        rep.add(dict(site='multiunion', cls=cls, impl=impl, fam=fam, part=case['part'],
                     n_over_800=len(expect_keys) > 800, unsigned_straddle=top), case,
                'result has %d keys, expected %d; first difference at index %s: got %r want %r'
                % (len(got), len(want),
                   next((i for i, (a, b) in enumerate(zip(got, want)) if a != b), 'len'),
                   got[:6], want[:6]))
        return
    if tn != setname:
        rep.add(dict(site='multiunion', cls='kind', impl=impl, fam=fam, got=tn[2:], part=case['part']),
                case, 'returned a %s, expected %s' % (tn, setname))
    for p in probes:
        guards['membership_probes'] += 1
        if (p in r) != (p in set(want)):
            rep.add(dict(site='multiunion', cls='membership', impl=impl, fam=fam, part=case['part']),
                    case, '%r in result -> %r' % (p, p in r))
            break
    if want:
        a, b = want[len(want) // 3], want[2 * len(want) // 3]
        if list(r.keys(a, b)) != [k for k in want if a <= k <= b]:
            rep.add(dict(site='multiunion', cls='range', impl=impl, fam=fam, part=case['part']), case,
                    'result.keys(%r, %r) wrong' % (a, b))
    # the operands are inputs only: unchanged by the call, and not aliased by the result (emptying the
    # result afterwards must not reach them either)
    guards['operands_unchanged_checked'] += 1
    after = [snap(o) for o in ops]
    if after == before and tn == setname and case['part'] == 'small':
        try:
            r.clear()
            after = [snap(o) for o in ops]
        except Exception as e:      # noqa
            after = repr(e)
    if after != before:
        rep.add(dict(site='multiunion', cls='operand-modified', impl=impl, fam=fam, part=case['part']),
                case, 'operands before %r, after the call (and clearing the result) %r'
                % (before[:4], after[:4] if isinstance(after, list) else after))


def build(fam, impl, form, keys):
    if form == 'int':
        return keys[0]
    if form == 'list':
        return list(keys)
    if form == 'gen':
        return (k for k in keys)
    cls = F.cls(fam, form, impl)
    if form in F.MAP_KINDS:
        c = cls()
        v = F.values(fam)[0]
        for k in keys:
            c[k] = v
        return c
    return cls(keys)


def small_job(fam, impl, tier):
    mod = F.module(fam)
    fn = getattr(mod, 'multiunion' + ('Py' if impl == 'py' else ''))
    pts = five_points(fam)
    rep = Reporter('C11')
    guards = collections.Counter()
    F.set_sizes(fam, 2, 2)
    subsets = [tuple(k for k, c in zip(pts, combo) if c)
               for combo in itertools.product((False, True), repeat=5)]
    operands = [('int', (p,)) for p in pts]
    for form in ('Set', 'TreeSet', 'Bucket', 'BTree', 'list', 'gen'):
        for s in subsets:
            if form in ('list', 'gen'):
                s = tuple(reversed(s)) + s[:1]      # unsorted, with a duplicate
            operands.append((form, s))
    reduced = [o for o in operands if o[0] == 'int' or len(o[1]) in (0, 2, 5, 6)][::3]
    evaluations = 0
    distinct = 0
    seqs = [()] + [(a,) for a in operands] + [(a, b) for a in operands for b in operands]
    seqs3 = [(a, b, c) for a in reduced for b in reduced for c in reduced]
    if tier != 'quick':
        seqs3 = [(a, b, c) for a in operands[::2] for b in operands[::3] for c in operands[::5]]
    sample = None
    for seq in itertools.chain(seqs, seqs3):
        if rep.full:
            break
        slot.set(('C11', fam, impl, 'small', seq))
        keys = [k for form, ks in seq for k in ks]
        case = dict(fam=fam, impl=impl, part='small', seq=[[f, list(ks)] for f, ks in seq])
        verify(rep, guards, fam, impl, fn,
               lambda: [build(fam, impl, f, ks) for f, ks in seq], keys, case, probes=pts)
        evaluations += 1
        guards['small'] += 1
        if len(set(keys)) >= 2:
            distinct += 1
        if pts[0] in keys and pts[-1] in keys:
            guards['both_extremes'] += 1
        if sample is None and len(seq) == 2 and len(set(keys)) >= 3:
            sample = case
    return dict(evaluations=evaluations, distinct=distinct, exhaustive=not rep.full,
                guards=dict(guards), violations=rep.all(), sample=sample)


def catalogue(fam, tier):
    """Yield (name, list_of_keys) - deterministic, all within the key range."""
    lo, hi = F.INT_RANGE[fam[0]]
    bits = 32 if fam[0] in 'IU' else 64
    sizes = SIZES_QUICK if tier == 'quick' else SIZES_QUICK + (803, 2048, 20000)
    steps = [1, 7, 257, 65537, 2 ** 24 + 1]
    topbit = 2 ** (bits - 1)
    for n in sizes:
        for step in steps:
            span = (n - 1) * step
            if span > hi - lo:
                continue
            anchors = {'low': lo, 'high': hi - span, 'zero': max(lo, -(span // 2)),
                       'from65536': 65536 if 65536 + span <= hi else None}
            if lo == 0:
                anchors['topbit'] = topbit - span // 2          # straddles the top-bit boundary
            else:
                anchors['neg24'] = -2 ** 24 if -2 ** 24 + span <= hi else None
            for an, start in anchors.items():
                if start is None or start < lo or start + span > hi:
                    continue
                yield ('arith/%s/step%d/n%d' % (an, step, n), [start + i * step for i in range(n)])
    # byte alphabets at several byte positions
    nbytes = bits // 8
    alpha = (0x00, 0x7f, 0x80, 0xff)
    for positions in ([0, 1, 2, 3],) if nbytes == 4 else ([0, 1, 2, 3], [4, 5, 6, 7], [0, 2, 4, 6],
                                                          [1, 3, 5, 7], [0, 3, 4, 7]):
        for fill in (0x00, 0xff):
            vals = []
            for combo in itertools.product(alpha, repeat=4):
                b = [fill] * nbytes
                for p, c in zip(positions, combo):
                    b[p] = c
                v = int.from_bytes(bytes(b), 'little')
                if lo < 0 and v >= topbit:
                    v -= 2 ** bits
                vals.append(v)
            yield ('bytes/%s/fill%02x' % (''.join(map(str, positions)), fill), vals)


def catalogue_job(fam, impl, tier):
    mod = F.module(fam)
    fn = getattr(mod, 'multiunion' + ('Py' if impl == 'py' else ''))
    rep = Reporter('C11')
    guards = collections.Counter()
    lo, hi = F.INT_RANGE[fam[0]]
    evaluations = 0
    distinct = 0
    sample = None
    setcls = F.cls(fam, 'Set', impl)
    for name, keys in catalogue(fam, tier):
        if rep.full:
            break
        n = len(keys)
        if name.startswith('bytes'):
            # 256 values: replicate past the switch with and without shifting
            variants = [('x1', keys), ('x4dup', keys * 4),
                        ('x4shift', [k for s in (0, 1, 2, 3) for k in keys
                                     if lo <= k + s <= hi for k in (k + s,)])]
        else:
            variants = [('plain', keys)]
        for vname, base_keys in variants:
            n = len(base_keys)
            stride = 389 if n % 389 else 397
            orders = {
                'asc': sorted(base_keys),
                'desc': sorted(base_keys, reverse=True),
                'interleaved': [base_keys[(i * stride) % n] for i in range(n)],
                'dup': sorted(base_keys) + sorted(base_keys)[:10],
            }
            for oname, seq in orders.items():
                for split in ('one-list', 'set+list', 'many-sets'):
                    if split != 'one-list' and oname in ('desc',):
                        continue
                    slot.set(('C11', fam, impl, name, vname, oname, split))
                    case = dict(fam=fam, impl=impl, part='catalogue', name=name, variant=vname,
                                order=oname, split=split)

                    def factory(seq=seq, split=split):
                        if split == 'one-list':
                            return [list(seq)]
                        if split == 'set+list':
                            return [setcls(seq[::2]), list(seq[1::2])]
                        return [setcls(seq[i:i + 100]) for i in range(0, len(seq), 100)]
                    total = len(seq)
                    verify(rep, guards, fam, impl, fn, factory, seq, case,
                           probes=(seq[0], seq[-1], seq[len(seq) // 2], lo, hi))
                    evaluations += 1
                    distinct += 1
                    guards['catalogue'] += 1
                    guards['radix_path(>800)' if total > 800 else 'quick_path(<=800)'] += 1
                    if any(k > hi // 2 for k in seq) and lo == 0:
                        guards['top_bit_keys'] += 1
                    if total > 800:
                        guards['no_duplicates_large' if len(set(seq)) == total else 'duplicates_large'] += 1
                    if sample is None and oname == 'interleaved' and total > 800:
                        sample = dict(case, first_keys=seq[:5], total=total)
    return dict(evaluations=evaluations, distinct=distinct, exhaustive=not rep.full,
                guards=dict(guards), violations=rep.all(), sample=sample)


def replay(case):
    fam, impl = case['fam'], case['impl']
    if case['part'] == 'small':
        mod = F.module(fam)
        fn = getattr(mod, 'multiunion' + ('Py' if impl == 'py' else ''))
        rep = Reporter('C11', cap=10**9)
        guards = collections.Counter()
        F.set_sizes(fam, 2, 2)
        seq = [(f, tuple(ks)) for f, ks in case['seq']]
        keys = [k for form, ks in seq for k in ks]
        verify(rep, guards, fam, impl, fn, lambda: [build(fam, impl, f, ks) for f, ks in seq],
               keys, case, probes=five_points(fam))
        return dict(violations=rep.fresh)
    r = catalogue_job(fam, impl, 'quick')
    vs = [v for v in r['violations'] if all(v['case'].get(k) == case.get(k)
                                            for k in ('name', 'variant', 'order', 'split'))]
    return dict(violations=vs)
