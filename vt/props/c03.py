"""C03 - a container used only through its API is never internally damaged.

E1 transition monitor: after every transition of the shape spaces, _check(),
BTrees.check.check() and an independent walk over the recursive __getstate__ dump.
"""
from .. import fam as F
from .. import ops as O
from .. import space as S
from .. import canon as C

LEVEL = 'model_checking'
RULE = ('states = distinct canonical shapes reachable under the mutating alphabet (BFS fixed '
        'point); after every transition t._check(), BTrees.check.check(t) and an independent '
        'B+-tree walk (chain = descent order, no empty node, uniform child kinds, keys inside '
        'ancestor ranges, leaf <= max_leaf_size, interior <= max_internal_size, root < 2x) are '
        'evaluated on the object the operation produced; evaluations = checker calls; '
        'distinct_nontrivial = states')
TRUSTED = ['CPython 3.12', 'persistent 6.8', 'vt harness (explorer, canonical dump, independent walk)']
ASSUMPTIONS = ['key universes of <= 7 keys', 'node sizes from {2,3,4}^2, set on the real classes or '
               'on a subclass (check.check() only accepts the exact classes and is skipped for subclasses)']

QUICK_SIZES = ((2, 2), (2, 3), (3, 2), (3, 3), (4, 2), (2, 4))


def bounds(tier):
    return ('quick: cover families deep (N=6 C / N=5 Py @2/2 slim alphabet; N=5 full alphabet @ %s; '
            'subclass route @2/2, 3/2), all 22 families N=4 full alphabet; thorough: all 22 deep, '
            'N=7 C / N=6 Py, sizes {2,3,4}^2; wide nodes (vt.space.wide_configs: thinning spaces @2/8, 8/2, 6/6 and '
            'BFS N=7 @2/8, N=9 @8/2) and big states at the DEFAULT node sizes (II 200 keys, OO 100 keys: every '
            'single operation from a scripted build); every transition repeated on an unpickled copy of the source tree' % (QUICK_SIZES,))


def required_guards(tier):
    return ['height>=3', 'single_child_interior', 'leaf_split', 'interior_split', 'root_split',
            'leaf_unlinked', 'first_leaf_unlinked', 'checked', 'loaded_route']


def jobs(tier):
    js = []
    deep = F.COVER if tier == 'quick' else F.FAMILIES
    for fam in F.FAMILIES:
        for impl in F.IMPLS:
            w = 10 if impl == 'py' else 1
            for kind in F.TREE_KINDS:
                cfgs = []
                if fam in deep:
                    if tier == 'quick':
                        cfgs.append(((2, 2), 6 if impl == 'c' else 5, 'centred', 'slim', False, 40))
                        for sz in QUICK_SIZES:
                            cfgs.append((sz, 5, 'centred', 'full', False, 6))
                        cfgs.append(((2, 2), 5, 'centred', 'full', True, 6))
                        cfgs.append(((3, 2), 5, 'centred', 'slim', True, 3))
                        cfgs.append(((2, 2), 5, 'extreme', 'slim', False, 3))
                        if fam[0] == 'O':
                            cfgs.append(((2, 2), 5, 'none', 'slim', False, 3))
                    else:
                        cfgs.append(((2, 2), 7 if impl == 'c' else 6, 'centred', 'slim', False, 400))
                        for a in (2, 3, 4):
                            for b in (2, 3, 4):
                                cfgs.append(((a, b), 6, 'centred', 'full', False, 60))
                                cfgs.append(((a, b), 5, 'centred', 'full', True, 6))
                        cfgs.append(((2, 2), 6, 'extreme', 'slim', False, 40))
                        if fam[0] == 'O':
                            cfgs.append(((2, 2), 6, 'none', 'slim', False, 40))
                else:
                    cfgs.append(((2, 2), 4, 'centred', 'full', False, 1))
                    cfgs.append(((2, 2), 4, 'extreme', 'slim', False, 1))
                for sizes, n, var, alpha, sub, ww in cfgs:
                    js.append({'fn': 'job', 'weight': w * ww, 'group': '%s/%s' % (impl, kind),
                               'args': dict(fam=fam, kind=kind, impl=impl, sizes=sizes, n=n,
                                            variant=var, alphabet=alpha, subclass=sub)})
                if fam in deep:
                    for order in ('asc', 'desc', 'mid'):
                        for sizes in ((2, 2), (2, 3), (3, 2)):
                            js.append({'fn': 'job', 'weight': w * 5, 'group': '%s/thin' % impl,
                                       'args': dict(fam=fam, kind=kind, impl=impl, sizes=sizes,
                                                    n=10 if tier == 'quick' else 12,
                                                    variant='centred', alphabet='slim',
                                                    subclass=False, thin=order)})
    # wide nodes (vt.space.wide_configs): 8..9 children under one node, 8 keys in one leaf
    from .. import space as S
    for fam, kind, impl, sizes, n, var, thin, w in S.wide_configs(tier):
        js.append({'fn': 'job', 'weight': 2 * w, 'group': '%s/wide' % impl,
                   'args': dict(fam=fam, kind=kind, impl=impl, sizes=sizes, n=n, variant=var,
                                alphabet='slim' if thin or n > 7 else 'full', subclass=False,
                                thin=thin)})
    # big states at the default node sizes (given explicitly so that the capacity walk knows them)
    for fam, n, sizes in BIG[tier]:
        for impl in F.IMPLS:
            for kind, order in (('BTree', 'asc'), ('TreeSet', 'desc'), ('BTree', 'mid')):
                js.append({'fn': 'job', 'weight': 6 if impl == 'c' else 30, 'group': '%s/big' % impl,
                           'args': dict(fam=fam, kind=kind, impl=impl, sizes=sizes, n=n,
                                        variant='centred', alphabet='slim', subclass=False, big=order)})
    return js


BIG = {'quick': (('II', 200, (120, 500)), ('OO', 100, (30, 250))),
       'thorough': (('II', 400, (120, 500)), ('OO', 200, (30, 250)), ('LQ', 200, (120, 500)),
                    ('fs', 800, (500, 500)), ('IF', 200, (120, 500)))}


def structural_events(prev, cur):
    """Names of structural events between two canonical tree forms."""
    ev = []
    ps, cs = C.shape_stats(prev), C.shape_stats(cur)
    if cs['leaves'] > ps['leaves']:
        ev.append('leaf_split')
    if cs['interior'] > ps['interior']:
        ev.append('interior_split')
    if cs['height'] > ps['height'] and ps['height'] >= 2:
        ev.append('root_split')
    if cs['leaves'] < ps['leaves'] and cs['leaves'] > 0:
        ev.append('leaf_unlinked')
        if prev[0] not in ('E', 'I', 'B') and cur[0] not in ('E', 'I', 'B'):
            pf = prev[1][prev[0][2]][0] if prev[0][2] is not None else None
            cf = cur[1][cur[0][2]][0] if cur[0][2] is not None else None
            if pf is not None and cf is not None and pf[:1] != cf[:1]:
                ev.append('first_leaf_unlinked')
    return ev


def checker_monitor(sizes, use_check, loaded=False):
    from BTrees.check import check as bcheck
    import pickle
    walked = {}

    def run(ex, hist, op, t, model, c):
        ctx = ex.ctx
        g = ex.guards
        n = 0
        probs = walked.get(c)
        if probs is None:
            probs = C.walk(c, ctx.is_map, sizes[0], sizes[1]) if c[0] != 'B' else []
            if not probs:
                want = model.contents()
                if C.contents_of(c, ctx.is_map) != want:
                    probs = probs + ['descent-order contents differ from the model']
                elif C.chain_contents(c, ctx.is_map) != want:
                    probs = probs + ['leaf-chain contents differ from the model']
            walked[c] = probs
        n += 1
        for p in probs[:3]:
            ex.report(dict(prop='C03', sig=ex.sig('walk', p.split(' ')[0] + ' ' + ' '.join(
                w for w in p.split(' ')[1:4] if not w.isdigit())),
                case=ex.case(hist, op), detail='independent walk: ' + '; '.join(probs)))
        try:
            n += 1
            t._check()
        except AssertionError as e:
            ex.report(dict(prop='C03', sig=ex.sig('_check', 'AssertionError'),
                           case=ex.case(hist, op), detail='_check(): %s' % e))
        except Exception as e:      # noqa
            ex.report(dict(prop='C03', sig=ex.sig('_check', type(e).__name__),
                           case=ex.case(hist, op), detail='_check(): %r' % e))
        if use_check:
            try:
                n += 1
                bcheck(t)
            except AssertionError as e:
                ex.report(dict(prop='C03', sig=ex.sig('check', 'AssertionError'),
                               case=ex.case(hist, op), detail='check(): %s' % e))
            except Exception as e:      # noqa
                ex.report(dict(prop='C03', sig=ex.sig('check', type(e).__name__),
                               case=ex.case(hist, op), detail='check(): %r' % e))
        g['checked'] += n

    prev_of = {}

    def tmon(ex, hist, op, t, model, c, rs):
        run(ex, hist, op, t, model, c)
        # structural events: compare with the canonical form of the source state
        src = prev_of.get(hist)
        if src is not None:
            for e in structural_events(src, c):
                ex.guards[e] += 1
        # the same transition on a tree that was LOADED (unpickled: exact-fit child / key vectors, no
        # cached node sizes) instead of grown: same shape, and sound
        if loaded and src is not None and ex.ctx.is_tree and not C.has_lone_leaf_node(src):
            ctx = ex.ctx
            try:
                t3 = pickle.loads(pickle.dumps(ex.rebuild(hist), 2))
                O.apply_sut(ctx, t3, op)
                c3 = C.dump(t3, True)
                ex.guards['loaded_route'] += 1
                if c3 != c:
                    ex.report(dict(prop='C03', sig=ex.sig('loaded', 'shape'), case=ex.case(hist, op, loaded=True),
                                   detail='the same operation on an unpickled copy of the tree gives %r, on the '
                                          'grown tree %r' % (c3, c)))
                else:
                    t3._check()
                    if use_check:
                        bcheck(t3)
            except Exception as e:      # noqa
                ex.report(dict(prop='C03', sig=ex.sig('loaded', type(e).__name__), case=ex.case(hist, op, loaded=True),
                               detail='unpickled copy, then %r: %s: %s' % (op, type(e).__name__, e)))

    def smon(ex, hist, t, model, c):
        prev_of[hist] = c
        if not hist:
            run(ex, hist, None, t, model, c)
    return tmon, smon


def job(fam, kind, impl, sizes, n, variant, alphabet, subclass, thin=None, big=None):
    ex = S.explorer(fam, kind, impl, sizes, n, variant, 'C03', alphabet=alphabet,
                    subclass=subclass, thin=thin, big=big)
    ex.base_case['alphabet'] = alphabet
    ex.base_case['subclass'] = subclass
    tmon, smon = checker_monitor(sizes, use_check=not subclass, loaded=not subclass and not big)
    ex.trans_monitors.append(tmon)
    ex.state_monitors.append(smon)
    ex.run()
    checked = ex.guards.get('checked', 0)
    return S.result(ex, extra_eval=checked)


def replay(case):
    from .. import ops as O
    from BTrees.check import check as bcheck
    from ..models import model_for
    sub = case.get('subclass')
    ctx = O.Ctx(case['fam'], case['kind'], case['impl'],
                subclass_sizes=case['sizes'] if sub else None)
    if not sub:
        F.set_sizes(case['fam'], *case['sizes'])
    t = ctx.new()
    m = model_for(ctx.kind)
    hist = [S._tup(o) for o in case['history']]
    if case.get('op') is not None:
        hist.append(S._tup(case['op']))
    for op in hist:
        O.fast_apply(ctx, t, op)
        O.apply_model(m, op)
    out = []

    def v(site, cls, detail):
        out.append(dict(prop='C03', sig=dict(site=site, cls=cls), case=case, detail=detail))
    try:
        c = C.dump(t, True)
        probs = C.walk(c, ctx.is_map, *case['sizes'])
        if C.contents_of(c, ctx.is_map) != m.contents() or C.chain_contents(c, ctx.is_map) != m.contents():
            probs.append('contents differ from the model')
        if probs:
            v('walk', 'walk', '; '.join(probs))
    except Exception as e:      # noqa
        v('walk', 'dump-failed', repr(e))
    for name, f in (('_check', t._check), ('check', lambda: bcheck(t))):
        if name == 'check' and sub:
            continue
        try:
            f()
        except Exception as e:      # noqa
            v(name, type(e).__name__, '%s(): %r' % (name, e))
    return dict(violations=out)
